"""Independent reference models (DESIGN Appendix B).  Nothing here imports the
dnspython function it is compared with; plain values only, no dict/set on
possibly-symbolic values."""


class Reject(Exception):
    pass


# ---- B2: wire name decoder ------------------------------------------------------

def ref_name_from_wire(msg, off):
    """Return (labels, consumed, furthest_offset_read) or raise Reject."""
    if off < 0 or off > len(msg):
        raise Reject("offset")
    labels = []
    limit = off
    pos = off
    consumed = None
    total = 0
    furthest = off
    while True:
        if pos >= len(msg):
            raise Reject("truncated")
        c = msg[pos]
        pos += 1
        furthest = max(furthest, pos)
        if c == 0:
            labels.append(b"")
            total += 1
            break
        if c < 64:
            if pos + c > len(msg):
                raise Reject("truncated label")
            labels.append(msg[pos:pos + c])
            total += c + 1
            pos += c
            furthest = max(furthest, pos)
        elif c >= 192:
            if pos >= len(msg):
                raise Reject("truncated pointer")
            target = (c - 192) * 256 + msg[pos]
            pos += 1
            furthest = max(furthest, pos)
            if consumed is None:
                consumed = pos - off
            if target >= limit:
                raise Reject("pointer not strictly backwards")
            limit = target
            pos = target
        else:
            raise Reject("label type")
    if consumed is None:
        consumed = pos - off
    if total > 255:
        raise Reject("too long")
    return labels, consumed, furthest


def valid_labels(labels):
    """The DNS validity predicate: labels <= 63, encoded length <= 255, empty label only last."""
    total = 0
    n = len(labels)
    for i in range(n):
        ll = len(labels[i])
        if ll > 63:
            return False
        if ll == 0 and i != n - 1:
            return False
        total += ll + 1
    return total <= 255


# ---- B1: canonical order / relation ----------------------------------------------

def fold_octet(c):
    if 65 <= c <= 90:
        return c + 32
    return c


def fold(label):
    return bytes([fold_octet(c) for c in label])


def cmp_label(a, b):
    """Unsigned-octet lexicographic order of folded labels: -1, 0, 1."""
    n = min(len(a), len(b))
    for i in range(n):
        x = fold_octet(a[i])
        y = fold_octet(b[i])
        if x < y:
            return -1
        if x > y:
            return 1
    if len(a) < len(b):
        return -1
    if len(a) > len(b):
        return 1
    return 0


NONE, SUPERDOMAIN, SUBDOMAIN, EQUAL, COMMONANCESTOR = 0, 1, 2, 3, 4


def ref_fullcompare(la, lb):
    """(relation, order, nlabels) for label tuples la, lb (absolute iff last label empty)."""
    aabs = len(la) > 0 and len(la[-1]) == 0
    babs = len(lb) > 0 and len(lb[-1]) == 0
    if aabs != babs:
        return (NONE, 1 if aabs else -1, 0)
    i, j = len(la) - 1, len(lb) - 1
    common = 0
    while i >= 0 and j >= 0:
        c = cmp_label(la[i], lb[j])
        if c != 0:
            return (COMMONANCESTOR if common > 0 else NONE, c, common)
        common += 1
        i -= 1
        j -= 1
    if len(la) == len(lb):
        return (EQUAL, 0, common)
    if len(la) < len(lb):
        return (SUPERDOMAIN, -1, common)
    return (SUBDOMAIN, 1, common)


def sign(x):
    return (x > 0) - (x < 0)


# ---- RR walker (B2 + fixed RR header + RDLENGTH skip), used by C03 / C08 / C14 -------------

def walk_message(wire):
    """Independent decoder of a whole message: returns dict(id, flags, counts, sections) where
    sections[i] is a list of (labels, rrtype, rrclass, ttl, rdata_offset, rdata_bytes, rr_start_offset);
    raises Reject on any malformed name / pointer / truncation / trailing octets."""
    if len(wire) < 12:
        raise Reject("short header")
    u16 = lambda o: wire[o] * 256 + wire[o + 1]  # noqa: E731
    mid, flags = u16(0), u16(2)
    counts = [u16(4), u16(6), u16(8), u16(10)]
    pos = 12
    sections = [[], [], [], []]
    for s in range(4):
        for _ in range(counts[s]):
            rr_start = pos
            labels, used, _f = ref_name_from_wire(wire, pos)
            pos += used
            if s == 0:
                if pos + 4 > len(wire):
                    raise Reject("truncated question")
                sections[0].append((labels, u16(pos), u16(pos + 2), 0, pos + 4, b"", rr_start))
                pos += 4
                continue
            if pos + 10 > len(wire):
                raise Reject("truncated RR header")
            rrtype, rrclass = u16(pos), u16(pos + 2)
            ttl = (u16(pos + 4) << 16) + u16(pos + 6)
            rdlen = u16(pos + 8)
            pos += 10
            if pos + rdlen > len(wire):
                raise Reject("truncated RDATA")
            sections[s].append((labels, rrtype, rrclass, ttl, pos, wire[pos:pos + rdlen], rr_start))
            pos += rdlen
    if pos != len(wire):
        raise Reject("trailing octets")
    return {"id": mid, "flags": flags, "counts": counts, "sections": sections}


# offsets of domain names inside the RDATA of the types the harness messages use (for pointer checks)
def rdata_names(wire, rrtype, off, rdata):
    """Decode the (possibly compressed) names embedded in RDATA of NS/CNAME/PTR/MX/SOA/SRV; returns list of label lists."""
    out = []
    if rrtype in (2, 5, 12):
        out.append(ref_name_from_wire(wire, off)[0])
    elif rrtype == 15:
        out.append(ref_name_from_wire(wire, off + 2)[0])
    elif rrtype == 33:
        out.append(ref_name_from_wire(wire, off + 6)[0])
    elif rrtype == 6:
        a, used, _f = ref_name_from_wire(wire, off)
        out.append(a)
        out.append(ref_name_from_wire(wire, off + used)[0])
    return out
