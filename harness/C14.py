"""C14  TSIG MACs follow RFC 8945; genuine messages verify, altered ones never do."""

import hashlib
import hmac as real_hmac

import vf.prelude  # noqa: F401
from vf.api import Harness, S, concrete, hit

import dns.exception
import dns.flags
import dns.message
import dns.name
import dns.rcode
import dns.rdataclass
import dns.rdatatype
import dns.rdtypes.ANY.TSIG
import dns.renderer
import dns.rrset
import dns.tsig

from harness.oracles import Reject, fold, walk_message

PROPERTY = "C14"


class Clock:
    now = 1_700_000_000

    @staticmethod
    def time():
        return Clock.now


dns.message.time = Clock

# ------------------------------------------------------------------ E9 ideal MAC (random-oracle recorder)

TABLE = []      # (full input stream, tag)
STREAMS = []    # every stream handed to the primitive, in order


class Rec:
    def __init__(self, key, digestmod=None):
        self.key = key
        self.stream = b""
        self.name = "ideal"

    def update(self, data):
        self.stream = self.stream + data

    def digest(self):
        full = self.key + b"|" + self.stream
        STREAMS.append(self.stream)
        for s, t in TABLE:
            if s == full:
                return t
        tag = bytes([len(TABLE) + 1]) * 64
        TABLE.append((full, tag))
        return tag


class HmacShim:
    @staticmethod
    def new(key, msg=None, digestmod=None):
        return Rec(key, digestmod)

    @staticmethod
    def compare_digest(a, b):
        return a == b


def use_ideal():
    dns.tsig.hmac = HmacShim
    del TABLE[:]
    del STREAMS[:]


def use_real():
    dns.tsig.hmac = real_hmac


ALGS = [dns.tsig.HMAC_SHA256, dns.tsig.HMAC_SHA1, dns.tsig.HMAC_SHA224, dns.tsig.HMAC_SHA384, dns.tsig.HMAC_SHA512, dns.tsig.HMAC_MD5,
        dns.tsig.HMAC_SHA256_128, dns.tsig.HMAC_SHA384_192, dns.tsig.HMAC_SHA512_256]
HASHES = {dns.tsig.HMAC_SHA256: (hashlib.sha256, None), dns.tsig.HMAC_SHA1: (hashlib.sha1, None), dns.tsig.HMAC_SHA224: (hashlib.sha224, None),
          dns.tsig.HMAC_SHA384: (hashlib.sha384, None), dns.tsig.HMAC_SHA512: (hashlib.sha512, None), dns.tsig.HMAC_MD5: (hashlib.md5, None),
          dns.tsig.HMAC_SHA256_128: (hashlib.sha256, 16), dns.tsig.HMAC_SHA384_192: (hashlib.sha384, 24),
          dns.tsig.HMAC_SHA512_256: (hashlib.sha512, 32)}
SECRET = b"0123456789abcdef0123456789abcdef"
KEYNAME = "Xfer-Key.Example."   # mixed case on purpose: RFC 8945 digests the canonical (lower-case) form


def canon_name(name):
    out = b""
    for lab in name.labels:
        out += bytes([len(lab)]) + fold(lab)
    return out


def u16(x):
    return bytes([(x // 256) % 256, x % 256])


def u32(x):
    return u16(x // 65536) + u16(x % 65536)


def u48(x):
    return u16(x // 2**32) + u32(x % 2**32)


def ref_stream(body_with_id, original_id, key, alg, time_signed, fudge, error, other, request_mac):
    """RFC 8945 4.3 digest input for a first / only message."""
    s = b""
    if request_mac:
        s += u16(len(request_mac)) + request_mac
    s += u16(original_id) + body_with_id[2:]
    s += canon_name(key.name) + u16(255) + u32(0) + canon_name(alg) + u48(time_signed) + u16(fudge) + u16(error) + u16(len(other)) + other
    return s


def base_query():
    q = dns.message.make_query("www.example.", "A", id=0x1234)
    return q


# ---------------------------------------------------------------- H14a digest composition

def h14a(time_signed: int, fudge: int, original_id: int, error: int, other: bytes, rmac: bytes, use_rmac: bool) -> bool:
    """The octet stream handed to the MAC primitive by sign() and validate() equals the RFC 8945 4.3 stream for every field value."""
    alg = ALGS[S("alg")]
    with concrete():
        key = dns.tsig.Key(KEYNAME, SECRET, alg)
        w0 = base_query().to_wire()
    use_ideal()
    request_mac = rmac if use_rmac else b""
    rd = dns.rdtypes.ANY.TSIG.TSIG(dns.rdataclass.ANY, dns.rdatatype.TSIG, alg, time_signed, fudge, b"", original_id, error, other)
    tsig, ctx = dns.tsig.sign(w0, key, rd, time_signed, request_mac)
    want = ref_stream(w0, original_id, key, alg, time_signed, fudge, error, other, request_mac)
    if len(STREAMS) != 1 or STREAMS[0] != want:
        return False
    hit("signed")
    if tsig.time_signed != time_signed or tsig.fudge != fudge or tsig.original_id != original_id or tsig.error != error or tsig.other != other:
        return False
    # the signed message as it goes on the wire: ARCOUNT + 1, TSIG RR appended
    owner = key.name.to_wire()
    rdw = tsig.to_wire()
    w1 = w0[:10] + u16(w0[10] * 256 + w0[11] + 1) + w0[12:] + owner + u16(250) + u16(255) + u32(0) + u16(len(rdw)) + rdw
    if error != 0:
        try:
            dns.tsig.validate(w1, key, key.name, tsig, time_signed, request_mac, len(w0))
            return False
        except dns.tsig.PeerError:
            return True
    dns.tsig.validate(w1, key, key.name, tsig, time_signed, request_mac, len(w0))
    return len(STREAMS) == 2 and STREAMS[1] == want


def h14a_pre(time_signed, fudge, original_id, error, other, rmac, use_rmac):
    return (0 <= time_signed < 2**48 and 0 <= fudge <= 65535 and 0 <= original_id <= 65535 and 0 <= error <= 4095
            and len(other) <= 2 and len(rmac) <= 3 and (use_rmac or len(rmac) == 0) and (not use_rmac or len(rmac) >= 1))


# ---------------------------------------------------------------- H14b multi-message sequences (RFC 8945 5.3.1)

def envelope(i, payload):
    """i-th message of a three-message answer: one TXT record whose single string octet is `payload`."""
    with concrete():
        q = dns.message.make_query("example.", "AXFR", id=0x1234)
        r = dns.message.make_response(q)
        w = r.to_wire()
    # append one answer RR by hand (owner = pointer to the question name): example. 300 IN TXT <1 octet>
    rr = b"\xc0\x0c" + u16(16) + u16(1) + u32(300) + u16(2) + b"\x01" + bytes([payload])
    return w[:6] + u16(1) + w[8:] + rr


def ideal_tag(secret, stream, alg):
    rec = Rec(secret)
    rec.update(stream)
    tag = rec.digest()
    del STREAMS[-1]  # (the reference's own use of the oracle is not a library call)
    trunc = HASHES[alg][1]
    return tag[:trunc] if trunc else tag


def attach_tsig(w, key, alg, t, fudge, mac):
    rd = canon_name(alg) + u48(t) + u16(fudge) + u16(len(mac)) + mac + w[0:2] + u16(0) + u16(0)
    owner = key.name.to_wire()
    return w[:10] + u16(w[10] * 256 + w[11] + 1) + w[12:] + owner + u16(250) + u16(255) + u32(0) + u16(len(rd)) + rd


def later_stream(prior_mac, unsigned, w, t, fudge):
    """RFC 8945 5.3.1: prior MAC (with its length), any unsigned messages since, the message, the TSIG timers."""
    s = u16(len(prior_mac)) + prior_mac
    for u in unsigned:
        s += u
    return s + w[0:2] + w[2:] + u48(t) + u16(fudge)


def h14b(t0: int, t1: int, t2: int, fudge: int, signed1: bool, alter: int, v: int, rmac: bytes) -> bool:
    """Three-message sequence: (A) the library as signer digests exactly the RFC 8945 5.3 / 5.3.1 streams; (B) the library as
    verifier accepts the reference-signed sequence with the middle message signed or unsigned, and rejects it at the next
    signed message when any one message (signed or not) was altered."""
    alg = ALGS[S("alg")]
    with concrete():
        key = dns.tsig.Key(KEYNAME, SECRET, alg)
    use_ideal()
    ts = [t0, t1, t2]
    ws = [envelope(i, 0x41 + i) for i in range(3)]
    # ---- A: the library signs every message of the sequence
    ctx = None
    macs = []
    for i in range(3):
        rd = dns.rdtypes.ANY.TSIG.TSIG(dns.rdataclass.ANY, dns.rdatatype.TSIG, alg, ts[i], fudge, b"", 0x1234, 0, b"")
        tsig, ctx = dns.tsig.sign(ws[i], key, rd, ts[i], rmac, ctx, True)
        if i == 0:
            want = ref_stream(ws[0], 0x1234, key, alg, ts[0], fudge, 0, b"", rmac)
        else:
            want = later_stream(macs[i - 1], [], ws[i], ts[i], fudge)
        if len(STREAMS) != i + 1 or STREAMS[i] != want:
            return False
        macs.append(tsig.mac)
    hit("signed")
    # ---- B: reference-signed sequence, middle message signed or not, one message possibly altered
    use_ideal()
    sent = []
    mac0 = ideal_tag(SECRET, ref_stream(ws[0], 0x1234, key, alg, ts[0], fudge, 0, b"", rmac), alg)
    sent.append(attach_tsig(ws[0], key, alg, ts[0], fudge, mac0))
    if signed1:
        mac1 = ideal_tag(SECRET, later_stream(mac0, [], ws[1], ts[1], fudge), alg)
        sent.append(attach_tsig(ws[1], key, alg, ts[1], fudge, mac1))
        mac2 = ideal_tag(SECRET, later_stream(mac1, [], ws[2], ts[2], fudge), alg)
    else:
        sent.append(ws[1])
        mac2 = ideal_tag(SECRET, later_stream(mac0, [ws[1]], ws[2], ts[2], fudge), alg)
    sent.append(attach_tsig(ws[2], key, alg, ts[2], fudge, mac2))
    body_len = len(ws[0])
    if alter > 0:
        j = alter - 1
        sent[j] = sent[j][:body_len - 1] + bytes([v]) + sent[j][body_len:]  # the TXT octet of message j
    # first signed message at or after the altered one must fail; everything before is accepted
    fail_at = None
    if alter > 0:
        j = alter - 1
        fail_at = j if (j != 1 or signed1) else 2
    ctx = None
    for i in range(3):
        Clock.now = ts[i]
        try:
            m = dns.message.from_wire(sent[i], keyring=key, request_mac=rmac, tsig_ctx=ctx, multi=True)
        except dns.tsig.BadSignature:
            Clock.now = 1_700_000_000
            return fail_at == i
        if fail_at == i:
            Clock.now = 1_700_000_000
            return False
        if m.had_tsig != (i != 1 or signed1):
            return False
        ctx = m.tsig_ctx
    Clock.now = 1_700_000_000
    hit("verified")
    return fail_at is None


def h14b_pre(t0, t1, t2, fudge, signed1, alter, v, rmac):
    if not (0 <= t0 < 2**48 and 0 <= t1 < 2**48 and 0 <= t2 < 2**48 and 0 <= fudge <= 65535 and 0 <= alter <= 3 and 0 <= v <= 255 and len(rmac) <= 2):
        return False
    if alter == 0:
        return v == 0
    return v != 0x41 + alter - 1


# ---------------------------------------------------------------- H14c real primitive on concrete vectors

def tsig_rr(wire):
    w = walk_message(wire)
    last = w["sections"][3][-1]
    return w, last


def h14c(which: int, ident: int) -> bool:
    """Every algorithm: the MAC on the wire equals Python's hmac over the RFC 8945 stream (truncated as registered); the message verifies; a response is bound to the request MAC."""
    use_real()
    alg = ALGS[which]
    key = dns.tsig.Key(KEYNAME, SECRET, alg)
    lower = dns.tsig.Key(KEYNAME.lower(), SECRET, alg)
    q = dns.message.make_query("www.example.", "A", id=ident)
    q.use_tsig(key, fudge=300)
    wire = q.to_wire()
    w, rr = tsig_rr(wire)
    if rr[1] != 250 or rr[2] != 255 or rr[3] != 0:
        return False
    rd = dns.rdata.from_wire(dns.rdataclass.ANY, dns.rdatatype.TSIG, wire, rr[4], len(rr[5]))
    body = wire[:10] + u16(w["counts"][3] - 1) + wire[12:rr[6]]
    h, trunc = HASHES[alg]
    want = real_hmac.new(SECRET, ref_stream(body, rd.original_id, key, alg, rd.time_signed, rd.fudge, rd.error, rd.other, b""), h).digest()
    if trunc:
        want = want[:trunc]
    hit("vector")
    if rd.mac != want or rd.original_id != ident or rd.time_signed != Clock.now:
        return False
    # verifies under the same key, also when the verifier spells the key name in another case
    for k in (key, lower):
        p = dns.message.from_wire(wire, keyring=k)
        if not p.had_tsig:
            return False
    # response bound to the request MAC
    p = dns.message.from_wire(wire, keyring=key)
    r = dns.message.make_response(p)
    rw = r.to_wire()
    w2, rr2 = tsig_rr(rw)
    rd2 = dns.rdata.from_wire(dns.rdataclass.ANY, dns.rdatatype.TSIG, rw, rr2[4], len(rr2[5]))
    body2 = rw[:10] + u16(w2["counts"][3] - 1) + rw[12:rr2[6]]
    want2 = real_hmac.new(SECRET, ref_stream(body2, rd2.original_id, key, alg, rd2.time_signed, rd2.fudge, rd2.error, rd2.other, rd.mac), h).digest()
    if trunc:
        want2 = want2[:trunc]
    if rd2.mac != want2:
        return False
    ok = dns.message.from_wire(rw, keyring=key, request_mac=rd.mac)
    if not ok.had_tsig:
        return False
    try:
        dns.message.from_wire(rw, keyring=key, request_mac=b"\x00" * len(rd.mac))
        return False
    except dns.tsig.BadSignature:
        pass
    return True


def h14c_pre(which, ident):
    return 0 <= which < len(ALGS) and ident in (0, 0x1234, 0xFFFF)


# ---------------------------------------------------------------- H14d single-bit alteration

def abstract_content(wire):
    """What RFC 8945 authenticates, computed with the independent walker: everything except the header id
    (replaced by the original id), with key / algorithm names up to ASCII case, TSIG class ANY and TTL 0."""
    w = walk_message(wire)
    add = w["sections"][3]
    if not add or add[-1][1] != 250:
        return None
    rr = add[-1]
    rdata = rr[5]
    # TSIG RDATA: algorithm name, time(6) fudge(2) maclen(2) mac origid(2) error(2) otherlen(2) other
    pos = 0
    alg = []
    while True:
        c = rdata[pos]
        pos += 1
        if c == 0:
            break
        if c >= 64:
            return None
        alg.append(fold(rdata[pos:pos + c]))
        pos += c
    rest = rdata[pos:]
    key = [fold(x) for x in rr[0]]
    rr_start = rr[6]
    body = wire[2:10] + u16(w["counts"][3] - 1) + wire[12:rr_start]
    return (body, key, rr[2], rr[3], alg, rest)


def h14d(i: int, b: int) -> bool:
    """Flip bit b of octet i of a signed message: parsing raises, or the result is unsigned, or its authenticated content is unchanged (header id, name case)."""
    use_real()
    with concrete():
        key = dns.tsig.Key(KEYNAME, SECRET, ALGS[0])
        if S("msg") == "query":
            m = base_query()
            m.use_tsig(key)
            wire = m.to_wire()
            rmac = b""
        else:
            q = base_query()
            q.use_tsig(key)
            qw = q.to_wire()
            pq = dns.message.from_wire(qw, keyring=key)
            r = dns.message.make_response(pq)
            r.answer.append(dns.rrset.from_text("www.example.", 300, "IN", "A", "10.0.0.1"))
            wire = r.to_wire()
            rmac = pq.mac
        base = abstract_content(wire)
    w2 = wire[:i] + bytes([wire[i] ^ (1 << b)]) + wire[i + 1:]
    try:
        p = dns.message.from_wire(w2, keyring=key, request_mac=rmac)
    except (dns.exception.DNSException, NotImplementedError):
        hit("rejected")
        return True
    hit("accepted")
    if not p.had_tsig:
        return True  # the flip turned the TSIG RR into something else: the message is not authenticated
    try:
        got = abstract_content(w2)
    except Reject:
        return False
    return got == base


def h14d_pre(i, b):
    lo, hi = S("octets")
    return lo <= i < hi and 0 <= b <= 7


def h14d_shards(tier):
    with concrete():
        use_real()
        key = dns.tsig.Key(KEYNAME, SECRET, ALGS[0])
        m = base_query()
        m.use_tsig(key)
        qw = m.to_wire()
        n1 = len(qw)
        pq = dns.message.from_wire(qw, keyring=key)
        r = dns.message.make_response(pq)
        r.answer.append(dns.rrset.from_text("www.example.", 300, "IN", "A", "10.0.0.1"))
        n2 = len(r.to_wire())  # (same construction as in h14d)
    out = []
    step = 8
    for lo in range(0, n1, step):
        out.append({"msg": "query", "octets": (lo, min(n1, lo + step)), "_timeout": 900, "_path_timeout": 60})
    if tier == "thorough":
        for lo in range(0, n2, step):
            out.append({"msg": "response", "octets": (lo, min(n2, lo + step)), "_timeout": 900, "_path_timeout": 60})
    return out


# ---------------------------------------------------------------- H14g shortened MACs

def h14g(k: int, alter: bool) -> bool:
    """A TSIG record re-encoded with only the first k octets of the MAC (k = 0 .. full length - 1): an altered message is never accepted,
    and an unaltered one is not accepted below the RFC 8945 5.2.2.1 minimum (max(10, half the MAC length))."""
    use_real()
    alg = ALGS[S("alg")]
    with concrete():
        key = dns.tsig.Key(KEYNAME, SECRET, alg)
        q = base_query()
        q.use_tsig(key)
        w = q.to_wire()
        wr, rr = tsig_rr(w)
        rd = dns.rdata.from_wire(dns.rdataclass.ANY, dns.rdatatype.TSIG, w, rr[4], len(rr[5]))
        full = len(rd.mac)
    if k >= full:
        return True
    short = None
    for kk in range(full):  # (make k concrete on this path: the TSIG record is rebuilt by the library's own encoder)
        if k == kk:
            short = rd.replace(mac=rd.mac[:kk]).to_wire()
    w2 = w[:rr[4] - 2] + u16(len(short)) + short
    if alter:
        w2 = w2[:14] + bytes([w2[14] ^ 0x01]) + w2[15:]  # one bit of the question name
    hit("presented")
    try:
        p = dns.message.from_wire(w2, keyring=key)
    except dns.exception.DNSException:
        return True
    if alter:
        return False
    return not (p.had_tsig and k < max(10, full // 2))


def h14g_pre(k, alter):
    return 0 <= k <= 64


# ---------------------------------------------------------------- H14e rejection table

def h14e(now: int, fudge: int, signed_at: int) -> bool:
    """BadTime exactly when |now - time signed| > fudge, for every clock value and fudge."""
    use_ideal()
    with concrete():
        key = dns.tsig.Key(KEYNAME, SECRET, ALGS[0])
    Clock.now = signed_at
    q = base_query()
    q.use_tsig(key, fudge=fudge)
    w = q.to_wire()
    Clock.now = now
    try:
        dns.message.from_wire(w, keyring=key)
        ok = True
    except dns.tsig.BadTime:
        ok = False
    finally:
        Clock.now = 1_700_000_000
    hit("checked")
    d = now - signed_at
    if d < 0:
        d = -d
    return ok == (d <= fudge)


def h14e_pre(now, fudge, signed_at):
    return 0 <= now < 2**48 and 0 <= fudge <= 65535 and 0 <= signed_at < 2**48


def h14e2(case: int, position: int) -> bool:
    """Wrong key bytes / key name / algorithm / request MAC / TSIG error / TSIG not last: the documented exception each time."""
    use_real()
    key = dns.tsig.Key(KEYNAME, SECRET, ALGS[0])
    q = base_query()
    q.use_tsig(key)
    w = q.to_wire()
    hit("case")
    try:
        if case == 0:
            dns.message.from_wire(w, keyring=dns.tsig.Key(KEYNAME, b"x" * 32, ALGS[0]))
            return False
        if case == 1:
            dns.message.from_wire(w, keyring=dns.tsig.Key("other-key.example.", SECRET, ALGS[0]))
            return False
        if case == 2:
            dns.message.from_wire(w, keyring=dns.tsig.Key(KEYNAME, SECRET, ALGS[1]))
            return False
        if case == 3:
            dns.message.from_wire(w, keyring={dns.name.from_text("nobody."): SECRET})
            return False
        if case == 4:
            dns.message.from_wire(w, keyring=None)
            return False
        if case == 5:
            # TSIG error field set by the peer: BADSIG 16, BADKEY 17, BADTIME 18, BADTRUNC 22, other
            for err, exc in ((16, dns.tsig.PeerBadSignature), (17, dns.tsig.PeerBadKey), (18, dns.tsig.PeerBadTime),
                             (22, dns.tsig.PeerBadTruncation), (23, dns.tsig.PeerError)):
                wr, rr = tsig_rr(w)
                rd = dns.rdata.from_wire(dns.rdataclass.ANY, dns.rdatatype.TSIG, w, rr[4], len(rr[5]))
                bad = rd.replace(error=err).to_wire()
                w2 = w[:rr[4]] + bad
                try:
                    dns.message.from_wire(w2, keyring=key)
                    return False
                except exc:
                    pass
            return True
        # case 6: an ordinary record after the TSIG RR (TSIG at position `position` of 3 additional records)
        extra = b"\x00" + u16(1) + u16(1) + u32(0) + u16(4) + b"\x0a\x00\x00\x01"
        wr, rr = tsig_rr(w)
        start = rr[6]
        # (the TSIG owner name is compressed against the question name at a fixed earlier offset, so the RR can be moved)
        tsig_bytes = w[start:]
        recs = [extra, extra]
        recs.insert(position, tsig_bytes)
        w2 = w[:10] + u16(3) + w[12:start] + b"".join(recs)
        try:
            p = dns.message.from_wire(w2, keyring=key)
        except dns.message.BadTSIG:
            return position != 2
        except dns.tsig.BadSignature:
            return position == 2  # last, but the digest no longer matches the altered message: still a rejection
        return False
    except dns.tsig.BadSignature:
        return case == 0
    except dns.tsig.BadKey:
        return case == 1
    except dns.tsig.BadAlgorithm:
        return case == 2
    except dns.message.UnknownTSIGKey:
        return case in (3, 4)


def h14e2_pre(case, position):
    return 0 <= case <= 6 and 0 <= position <= 2 and (case == 6 or position == 0)


HARNESSES = [
    Harness("H14a", h14a, h14a_pre, lambda tier: [{"alg": a, "_timeout": 900, "_path_timeout": 120} for a in (range(3) if tier == "quick" else range(len(ALGS)))],
            kind="universal",
            encodes=["dns.tsig._digest", "dns.tsig.sign", "dns.tsig.validate", "dns.tsig.get_context", "dns.tsig.HMACTSig.__init__", "dns.tsig.HMACTSig.sign",
                     "dns.tsig.HMACTSig.verify", "dns.rdtypes.ANY.TSIG.TSIG._to_wire"],
            bound="time signed (48 bit), fudge, original id (16 bit each), error (0..4095, the range the TSIG record accepts), other data <= 2 octets, request MAC absent or 1-3 octets: all symbolic; mixed-case key name; 3 (9) algorithms; stream compared octet for octet with the RFC 8945 4.3 reference",
            stubs=["E9", "E1"], outside="cryptographic strength of HMAC (idealised); GSS-TSIG"),
    Harness("H14b", h14b, h14b_pre, lambda tier: [{"alg": a, "_timeout": 900, "_path_timeout": 120} for a in ((0, 6) if tier == "quick" else range(len(ALGS)))],
            kind="universal over times / fudge / request MAC / replacement octet; finite over which message is unsigned or altered",
            encodes=["dns.tsig._digest", "dns.tsig._maybe_start_digest", "dns.tsig.sign", "dns.tsig.validate", "dns.message._WireReader.read",
                     "dns.message._WireReader._get_section", "dns.message.from_wire"],
            bound="3-message sequence; (A) sign() with multi: stream of message 1 = RFC 8945 5.3 stream, of messages 2, 3 = prior MAC with length + message + timers; (B) from_wire(multi=True, tsig_ctx) on a reference-signed sequence with the middle message signed or unsigned; one octet of any one message replaced by any other value -> BadSignature at the next signed message; times 48 bit, fudge 16 bit, request MAC 0-2 octets symbolic; HMAC-SHA256 and a truncated variant (thorough: all 9)",
            stubs=["E9", "E1", "E7"], outside="longer sequences; two unsigned messages in a row; cryptographic strength of HMAC (idealised)"),
    Harness("H14c", h14c, h14c_pre, lambda tier: [{"_timeout": 600}], kind="finite selection (concrete vectors, real HMAC)",
            encodes=["dns.message.Message.use_tsig", "dns.message.Message.to_wire", "dns.tsig.sign", "dns.tsig.validate", "dns.renderer.Renderer.add_rrset",
                     "dns.message.make_response"],
            bound="9 algorithms (incl. the 3 truncated ones) x 3 message ids; request and bound response; mixed-case key name verified under both spellings; wrong request MAC rejected",
            stubs=["E7"], outside="other messages"),
    Harness("H14d", h14d, h14d_pre, h14d_shards, kind="finite selection: every (octet, bit), exhaustive",
            encodes=["dns.message._WireReader._get_section", "dns.message.Message._parse_special_rr_header", "dns.tsig.validate", "dns.tsig._digest"],
            bound="every single-bit flip of a signed query (thorough: and of a signed response bound to its request MAC); real HMAC-SHA256",
            stubs=["E7"], outside="multi-bit alterations; other messages"),
    Harness("H14g", h14g, h14g_pre, lambda tier: [{"alg": a, "_timeout": 600, "_path_timeout": 60} for a in ((0, 4, 6) if tier == "quick" else range(len(ALGS)))],
            kind="finite selection: every prefix length, exhaustive",
            encodes=["dns.tsig.validate", "dns.tsig.HMACTSig.verify", "dns.message._WireReader._get_section"],
            bound="signed query whose TSIG record carries only the first k octets of the MAC, every k below the full length, with and without one altered bit in the question; real HMAC; 3 (9) algorithms",
            stubs=["E7"], outside="other alterations combined with a short MAC"),
    Harness("H14e", h14e, h14e_pre, lambda tier: [{"_timeout": 900, "_path_timeout": 120}], kind="universal",
            encodes=["dns.tsig.validate", "dns.message.Message.use_tsig", "dns.message.Message.to_wire"],
            bound="now and signing time symbolic over 48 bits, fudge over 16 bits", stubs=["E9", "E7", "E1"], outside=""),
    Harness("H14e2", h14e2, h14e2_pre, lambda tier: [{"_timeout": 600}], kind="finite selection",
            encodes=["dns.tsig.validate", "dns.message._WireReader._get_section", "dns.message.Message._parse_special_rr_header"],
            bound="wrong secret / key name / algorithm / unknown key / no keyring / 5 TSIG error codes / TSIG RR at each of 3 positions among the additional records",
            stubs=["E7"], outside=""),
]
