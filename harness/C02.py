"""C02  Every record type's wire form round-trips and re-encodes byte-identically."""

import vf.prelude  # noqa: F401
from vf.api import Harness, S, concrete, hit

import dns.edns
import dns.exception
import dns.name
import dns.rdata
import dns.rdataclass
import dns.rdatatype
import dns.wire

from harness.types_common import EX, IN, TWO_NAME, implemented, lmin, specimen

PROPERTY = "C02"


def immutable_value(v, depth=0):
    """C07: every field of a record is an immutable value."""
    if v is None or isinstance(v, (bytes, int, str, float, bool, dns.name.Name, dns.rdata.Rdata)):
        return True
    if isinstance(v, tuple):
        return all([immutable_value(x, depth + 1) for x in v])
    if isinstance(v, (list, dict, set, bytearray)):
        return False
    # frozen helper objects (Bitmap, Gateway, SVCB params, EDNS options, immutable Dict ...)
    try:
        object.__getattribute__(v, "__class__")
        name = type(v).__module__
    except Exception:
        return False
    return name.startswith("dns.")


def slots_of(rd):
    out = []
    for cls in type(rd).__mro__:
        out.extend(getattr(cls, "__slots__", []))
    return [s for s in out if s not in ("__dict__", "__weakref__")]


def roundtrip_ok(c, t, rd, origin, has_relative=False):
    """encode -> decode gives an equal record whose re-encoding is byte-identical, without and with an origin."""
    w = rd.to_wire(origin=origin)
    rd_abs = dns.rdata.from_wire(c, t, w, 0, len(w))
    if rd_abs.to_wire() != w:
        return False
    if not has_relative and (not (rd_abs == rd) or rd_abs != rd):
        return False
    if origin is not None:
        # decoding with an origin relativizes names beneath it; that form must be stable too
        rd_rel = dns.rdata.from_wire(c, t, w, 0, len(w), origin)
        w2 = rd_rel.to_wire(origin=origin)
        if w2 != w:
            return False
        rd_rel2 = dns.rdata.from_wire(c, t, w2, 0, len(w2), origin)
        if not (rd_rel2 == rd_rel):
            return False
        if has_relative is not False and not has_relative(rd_rel):
            return False
    return True


# ---------------------------------------------------------------- H02a decode anything

POOLED = {"A": "IPv4 text conversion", "L32": "IPv4 text conversion", "WKS": "IPv4 text conversion / service names",
          "AAAA": "IPv6 text conversion", "NID": "hex group text conversion", "L64": "hex group text conversion",
          "GPOS": "floating point text", "LOC": "floating point"}
K_QUICK = {"SOA": 0, "SIG": 0, "RRSIG": 0, "TKEY": 0, "TSIG": 0}
# leading names fixed (hex) so that the path count is not the product of two name decodings; the rest is symbolic
PREFIXED = {"SOA": [("0000", 20), ("01610000", 20), ("00c000", 20)], "TKEY": [("00", 16), ("016100", 16)],
            "TSIG": [("00", 16), ("016100", 16)]}


def pool_for(c, t, name, L):
    """Concrete buffers for the types whose constructors convert through text / floats (DESIGN 2.4)."""
    out = [b"\x00" * L, b"\xff" * L, b"\x00" * max(0, L - 1), b"\x00" * (L + 1), b"", b"\x01" * L, bytes(range(1, L + 1)),
           b"\x00" * (L - 1) + b"\x01" if L else b"", b"\x80" + b"\x00" * max(0, L - 1), b"\x7f" * L, bytes([9, 10, 99, 100, 199, 200, 249, 250, 255, 0][:L])]
    try:
        rd = specimen(c, t, name)
        if rd is not None:
            w = rd.to_wire()
            out += [w, w[:-1], w + b"\x00", w[:-1] + bytes([w[-1] ^ 0xFF]) if w else b""]
    except Exception:
        pass
    if name == "GPOS":
        out += [b"\x011\x012\x013", b"\x03-90\x04-180\x010", b"\x0291\x010\x010", b"\x01a\x010\x010", b"\x031.5\x04-2.5\x043e10", b"\x00\x00\x00"]
    if name == "LOC":
        out += [b"\x00\x12\x16\x13\x80\x00\x00\x00\x80\x00\x00\x00\x00\x98\x96\x80", b"\x01" + b"\x00" * 15,
                b"\x00\xff\xff\xff\x80\x00\x00\x00\x80\x00\x00\x00\x00\x00\x00\x00",
                b"\x00\x00\x00\x00\xff\xff\xff\xff\x00\x00\x00\x00\xff\xff\xff\xff", b"\x00\x9a\x00\x00" + b"\x80\x00\x00\x00" * 2 + b"\x00" * 4]
    if name == "LOC":
        # coordinates whose float image does not multiply back exactly (x / 3600000 * 3600000 < x), taken where three
        # consecutive values are of that kind: only correct rounding in the constructor brings them back, and a
        # truncating one drifts by one unit on every decode, so decode(encode(r)) != r shows on the decoded record
        def hard(n):
            return n / 3600000 * 3600000 < n
        runs = [n for n in list(range(3, 60000)) + list(range(59789000, 59849000)) + list(range(177102000, 177162000))
                if hard(n) and hard(n - 1) and hard(n - 2)]
        for n in runs[:4] + runs[len(runs) // 2:len(runs) // 2 + 4] + runs[-4:]:
            out.append(b"\x00\x12\x16\x13" + (0x80000000 + n).to_bytes(4, "big") + (0x80000000 - n).to_bytes(4, "big") + b"\x00\x98\x96\x80")
    if name == "WKS":
        out += [b"\x0a\x00\x00\x01\x06", b"\x0a\x00\x00\x01\x06\x80", b"\x0a\x00\x00\x01\x11\x00\x00\x01", b"\x0a\x00\x00\x01\xff\xff\xff"]
    seen = []
    for b in out:
        if b not in seen:
            seen.append(b)
    return seen


def h02a(buf: bytes, use_origin: bool, pick: int) -> bool:
    """from_wire on arbitrary octets: FormError, or a record that consumed exactly rdlen and is a decode/encode fixed point."""
    c, t = S("c"), S("t")
    if S("pooled"):
        with concrete():
            pool = pool_for(c, t, S("name"), S("lmin"))
        buf = pool[pick]
    if S("prefix"):
        buf = bytes.fromhex(S("prefix")) + buf
    wire = buf + b"\xaa"
    origin = EX if use_origin else None
    try:
        rd = dns.rdata.from_wire(c, t, wire, 0, len(buf), origin)
    except dns.exception.FormError:
        return True
    hit("accepted")
    # exactly rdlen octets consumed (restrict_to is code under check): parse again with an own parser
    p = dns.wire.Parser(wire, 0)
    with p.restrict_to(len(buf)):
        rdp = dns.rdata.from_wire_parser(c, t, p, origin)
    if p.current != len(buf) or rdp != rd:
        return False
    if origin is None:
        rd_abs = rd
    else:
        # names beneath the origin come back relativized; the absolute reading is the reference
        rd_abs = dns.rdata.from_wire(c, t, wire, 0, len(buf))
        if rd.to_wire(origin=origin) != rd_abs.to_wire():
            return False
    if not roundtrip_ok(c, t, rd_abs, origin):
        return False
    for s in slots_of(rd):
        if not immutable_value(getattr(rd, s)):
            return False
    return True


def h02a_pre(buf, use_origin, pick):
    if S("pooled"):
        return len(buf) == 0 and 0 <= pick < S("npool")
    return len(buf) <= S("max") and pick == 0


def h02a_shards(tier):
    out = []
    with concrete():
        for c, t, name in implemented():
            base = name.replace("CH-", "")
            k = (1 if base in TWO_NAME else 2) if tier == "quick" else (2 if base in TWO_NAME else 4)
            if tier == "quick":
                k = K_QUICK.get(base, k)
            L = lmin(c, t, name)
            pooled = name in POOLED and (tier == "quick" or name not in ("A", "L32"))
            prefixes = PREFIXED.get(base, [("", L + k)])
            for pf, rest in prefixes:
                out.append({"c": c, "t": t, "name": name, "max": rest + (0 if tier == "quick" or not pf else 1),
                            "lmin": L, "pooled": pooled, "prefix": pf,
                            "npool": len(pool_for(c, t, name, L)) if pooled else 0,
                            "_timeout": 300 if tier == "quick" else 1800, "_path_timeout": 60})
    return out


# ---------------------------------------------------------------- H02b field at a time

def field_kind(rd, field):
    """('int', max) | ('bytes',) | ('name',) | None, discovered through the class's own validators."""
    v = getattr(rd, field)
    if isinstance(v, bool):
        return None
    if isinstance(v, int):
        top = None
        for cand in (255, 65535, 2**32 - 1, 2**48 - 1):
            try:
                rd.replace(**{field: cand}).to_wire()
                top = cand
            except Exception:
                break
        if top is None:
            return None
        try:
            rd.replace(**{field: top + 1}).to_wire()
            return None  # range not one of the plain unsigned widths
        except Exception:
            pass
        return ("int", top)
    if isinstance(v, bytes):
        return ("bytes",)
    if isinstance(v, dns.name.Name):
        return ("name",)
    return None


def h02b(n: int, data: bytes, b0: int, b1: int, relname: bool, use_origin: bool) -> bool:
    """A specimen with one field replaced by any in-range value encodes, decodes to an equal record and re-encodes identically."""
    c, t, field, kind = S("c"), S("t"), S("field"), S("kind")
    with concrete():
        rd0 = specimen(c, t, S("name"))
    origin = EX if use_origin else None
    if S("name") in ("SVCB", "HTTPS") and field == "priority" and n == 0:
        return True  # AliasMode with parameters is not a well-formed value (RFC 9460 2.4.2); the constructor does not check it
    try:
        if kind[0] == "int":
            rd = rd0.replace(**{field: n})
        elif kind[0] == "bytes":
            rd = rd0.replace(**{field: data})
        else:
            labels = [bytes([b0]), bytes([b1])]
            nm = dns.name.Name(labels) if relname else dns.name.Name(labels + [b"example", b""])
            if relname and origin is None:
                return True  # a relative name cannot be rendered without an origin
            if relname and S("name") == "TSIG":
                return True  # TSIG algorithm names are never relativized on decode (not zone data)
            rd = rd0.replace(**{field: nm})
    except (ValueError, dns.exception.DNSException, TypeError):
        # the constructor-side validator refused the value (e.g. even-length / fixed-length fields)
        hit("refused")
        return True
    hit("accepted")
    try:
        if kind[0] == "name" and relname:
            # the relative name comes back as given when decoded against the same origin
            return roundtrip_ok(c, t, rd, origin, has_relative=lambda r: getattr(r, field).labels == nm.labels)
        return roundtrip_ok(c, t, rd, origin)
    except dns.exception.FormError:
        # a value the constructor accepts must be decodable from its own encoding
        return False


def h02b_pre(n, data, b0, b1, relname, use_origin):
    kind = S("kind")
    if kind[0] == "int":
        return 0 <= n <= kind[1] and len(data) == 0 and b0 == 0 and b1 == 0 and not relname
    if kind[0] == "bytes":
        return n == 0 and len(data) <= S("blen") and b0 == 0 and b1 == 0 and not relname
    return n == 0 and len(data) == 0 and 0 <= b0 <= 255 and 0 <= b1 <= 255


def h02b_shards(tier):
    out = []
    with concrete():
        for c, t, name in implemented():
            try:
                rd0 = specimen(c, t, name)
            except Exception:
                rd0 = None
            if rd0 is None or name in ("GPOS", "LOC"):
                continue  # float-text fields: covered by the H02a pools only
            for field in slots_of(rd0):
                if field in ("rdclass", "rdtype", "rdcomment"):
                    continue
                kind = field_kind(rd0, field)
                if kind is None:
                    continue
                out.append({"c": c, "t": t, "name": name, "field": field, "kind": list(kind), "blen": 3 if tier == "quick" else 4,
                            "_timeout": 200 if tier == "quick" else 900, "_path_timeout": 60})
    return out


# ---------------------------------------------------------------- H02e list-valued fields: APL items, type bitmaps

V4POOL = ["0.0.0.0", "10.0.0.0", "255.255.255.255", "1.2.3.0", "0.0.0.1", "128.0.0.0"]
V6POOL = ["::", "::1", "ff00::", "2001:db8::", "ffff:ffff:ffff:ffff:ffff:ffff:ffff:ffff", "0:0:0:1::"]


def h02e(neg1: bool, p1: int, a1: int, neg2: bool, p2: int, a2: int, raw: bytes, two: bool) -> bool:
    """APL records built from well-formed items (any negation / prefix, pooled addresses) round-trip on the wire."""
    import dns.rdtypes.IN.APL as APL

    fam = S("family")
    items = []
    for neg, pfx, ai in ((neg1, p1, a1), (neg2, p2, a2))[:2 if two else 1]:
        if fam == 1:
            items.append(APL.APLItem(1, neg, V4POOL[ai], pfx))
        elif fam == 2:
            items.append(APL.APLItem(2, neg, V6POOL[ai], pfx))
        else:
            # for unknown address families the library keeps the address as hex text
            items.append(APL.APLItem(fam, neg, [b"", b"01", b"ff", b"0a0b", b"0001", b"80"][ai], pfx))
    rd = APL.APL(IN, dns.rdatatype.APL, items)
    hit("built")
    w = rd.to_wire()
    rd2 = dns.rdata.from_wire(IN, dns.rdatatype.APL, w + b"\xaa", 0, len(w))
    if len(rd2.items) != len(items):
        return False
    for x, y in zip(rd2.items, items):
        if x.family != y.family or x.negation != y.negation or x.prefix != y.prefix or x.address != y.address:
            return False
    return rd2.to_wire() == w and rd2 == rd


def h02e_pre(neg1, p1, a1, neg2, p2, a2, raw, two):
    fam = S("family")
    top = 32 if fam == 1 else (128 if fam == 2 else 255)
    if not (0 <= p1 <= top and 0 <= p2 <= top and 0 <= a1 < 6 and 0 <= a2 < 6 and len(raw) <= 2):
        return False
    return len(raw) == 0


def h02f(w1: int, w2: int, b1: bytes, b2: bytes, two: bool) -> bool:
    """NSEC / NSEC3 / CSYNC records with any well-formed type bitmap (1-2 windows) round-trip on the wire."""
    t = S("t")
    with concrete():
        rd0 = specimen(IN, t, S("name"))
    windows = [(w1, b1)] + ([(w2, b2)] if two else [])
    rd = rd0.replace(windows=tuple(windows))
    hit("built")
    w = rd.to_wire()
    rd2 = dns.rdata.from_wire(IN, t, w + b"\xaa", 0, len(w))
    return tuple(rd2.windows) == tuple(windows) and rd2.to_wire() == w and rd2 == rd


def h02f_pre(w1, w2, b1, b2, two):
    return 0 <= w1 < w2 <= 255 and 1 <= len(b1) <= 2 and 1 <= len(b2) <= 2 and (two or (w2 == w1 + 1 and b2 == b"\x00"))


# ---------------------------------------------------------------- H02c unknown types (RFC 3597)

UNKNOWN_TYPES = [65280, 999, 4242, 31337, 65534]


def h02c(ti: int, ci: int, data: bytes) -> bool:
    """Unknown type codes: generic rdata round-trips on the wire and through the \\# text form."""
    t = UNKNOWN_TYPES[ti]
    c = [1, 3, 4, 254, 65280][ci]
    wire = data + b"\xaa"
    rd = dns.rdata.from_wire(c, t, wire, 0, len(data))
    if not isinstance(rd, dns.rdata.GenericRdata) or rd.data != data:
        return False
    if not roundtrip_ok(c, t, rd, None):
        return False
    hit("generic")
    return True  # the \\# text form is C05's subject (hex conversion realizes every octet)


def h02c_pre(ti, ci, data):
    return ti == S("ti") and 0 <= ci < 5 and len(data) <= S("max")


# ---------------------------------------------------------------- H02d EDNS options

OPTION_CODES = [3, 5, 6, 7, 8, 9, 10, 11, 12, 13, 14, 15, 16, 17, 18, 65001]


def _ecs_pool():
    out = []
    for fam in (1, 2, 3):
        for src in (0, 1, 7, 8, 9, 24, 32, 33, 56, 128, 129):
            for scope in (0, 8):
                n = (src + 7) // 8
                for addr in (bytes([0xC0] * n), bytes([0xFF] * n), bytes([0x80] * (n + 1)), bytes([1] * max(0, n - 1))):
                    out.append(bytes([0, fam, src, scope]) + addr)
    return out + [b"", b"\x00", b"\x00\x01", b"\x00\x01\x08"]


ECS_POOL = _ecs_pool()


def h02d(oi: int, data: bytes, pick: int) -> bool:
    """EDNS options decoded from arbitrary data re-encode to a fixed point; OPT rdata with the option round-trips."""
    code = OPTION_CODES[oi]
    if code == 8:
        # ECS converts through address text and floating point: concrete pool, symbolic choice
        data = ECS_POOL[pick]
    # through the OPT record (class field = UDP payload), where the library's exception wrapper applies
    rdw = code.to_bytes(2, "big") + len(data).to_bytes(2, "big") + data
    try:
        rd = dns.rdata.from_wire(4096, dns.rdatatype.OPT, rdw + b"\xaa", 0, len(rdw))
    except dns.exception.FormError:
        return True
    hit("accepted")
    if len(rd.options) != 1 or int(rd.options[0].otype) != code:
        return False
    w = rd.to_wire()
    rd2 = dns.rdata.from_wire(4096, dns.rdatatype.OPT, w, 0, len(w))
    if rd2.to_wire() != w or rd2 != rd:
        return False
    opt = rd.options[0]
    ow = opt.to_wire()
    opt2 = dns.edns.option_from_wire(code, ow, 0, len(ow))
    return opt2.to_wire() == ow and opt2 == opt


def h02d_pre(oi, data, pick):
    if S("code") == 8:
        return oi == S("oi") and len(data) == 0 and 0 <= pick < len(ECS_POOL)
    return oi == S("oi") and len(data) <= S("max") and pick == 0


def h02d_shards(tier):
    out = []
    for i in range(len(OPTION_CODES)):
        mx = 5 if tier == "quick" else 7
        if OPTION_CODES[i] == 8:
            mx = 4 if tier == "quick" else 5  # ECS: address arithmetic is solver-heavy
        out.append({"oi": i, "code": OPTION_CODES[i], "max": mx, "allow_valueerror": True, "_timeout": 300 if tier == "quick" else 1200, "_path_timeout": 60})
    return out


# ---------------------------------------------------------------- H02g fields wider than 32 bits

T48 = [0, 1, 2**16 - 1, 2**16, 2**31, 2**32 - 1, 2**32, 2**32 + 1, 2**40 + 5, 2**47, 2**48 - 2, 2**48 - 1]


def h02g(pick: int, fudge: int, original_id: int) -> bool:
    """TSIG (the library's only 48-bit field): every boundary value of the time signed survives encode -> decode, with the other
    integer fields symbolic; the re-encoding is byte-identical."""
    import dns.rdtypes.ANY.TSIG

    alg = dns.name.Name([b"hmac-sha256", b""])
    t48 = 0
    for i in range(len(T48)):  # (one path per pooled value: the time itself stays concrete)
        if pick == i:
            t48 = T48[i]
    rd = dns.rdtypes.ANY.TSIG.TSIG(dns.rdataclass.ANY, dns.rdatatype.TSIG, alg, t48, fudge, b"\x01\x02", original_id, 0, b"")
    w = rd.to_wire()
    back = dns.rdata.from_wire(dns.rdataclass.ANY, dns.rdatatype.TSIG, w, 0, len(w))
    hit("decoded")
    if back.time_signed != t48 or back.fudge != fudge or back.original_id != original_id:
        return False
    return back == rd and back.to_wire() == w


def h02g_pre(pick, fudge, original_id):
    return 0 <= pick < len(T48) and 0 <= fudge <= 65535 and 0 <= original_id <= 65535


HARNESSES = [
    Harness("H02a", h02a, h02a_pre, h02a_shards, kind="universal",
            encodes=["dns.rdata.from_wire", "dns.rdata.from_wire_parser", "dns.rdata.get_rdata_class", "dns.rdata.Rdata.to_wire",
                     "dns.wirebase.Parser.restrict_to", "dns.rdata.Rdata.__eq__", "dns.rdata.Rdata.to_digestable",
                     "dns.rdtypes.util.Bitmap", "dns.rdtypes.util.Gateway", "dns.rdtypes.svcbbase.SVCBBase.from_wire_parser"],
            bound="every implemented (class, type) found at run time (69 today); for A, L32, WKS, AAAA, NID, L64, GPOS, LOC (text / float conversions in the constructor) a symbolic choice among ~15 concrete buffers instead (thorough: A and L32 fully symbolic); SOA/TKEY/TSIG: 2-3 fixed spellings of the leading name(s) + symbolic rest; otherwise every RDATA octet string of length <= Lmin+2 (multi-field name types Lmin+1); thorough Lmin+4 / +2; Lmin = shortest accepted all-zero buffer (acceptance counters guard against rejection-only shards); with and without origin",
            stubs=["E1", "E5", "E6", "E12"], outside="longer RDATA; per-type from_wire_parser source hashes are covered by the run-time type list"),
    Harness("H02b", h02b, h02b_pre, h02b_shards, kind="universal",
            encodes=["dns.rdata.Rdata.replace", "dns.rdata.Rdata.to_wire", "dns.rdata.from_wire", "dns.rdata.Rdata._as_uint8",
                     "dns.rdata.Rdata._as_uint16", "dns.rdata.Rdata._as_uint32", "dns.rdata.Rdata._as_bytes", "dns.rdata.Rdata._as_name"],
            bound="for every specimen and every int / bytes / Name field: the full unsigned range of the field (8/16/32/48 bit), any octet string of <= 3 (4) octets, any two-one-octet-label name (relative or under example.), with and without origin",
            stubs=["E1", "E5", "E6", "E12"], outside="tuple-valued fields (bitmaps, option lists, SVCB parameters) beyond what H02a reaches; longer strings"),
    Harness("H02e", h02e, h02e_pre, lambda tier: [{"family": f, "_timeout": 600, "_path_timeout": 60} for f in (1, 2, 3)], kind="universal over negation/prefix, finite over addresses",
            encodes=["dns.rdtypes.IN.APL.APLItem.to_wire", "dns.rdtypes.IN.APL.APL.from_wire_parser", "dns.rdtypes.IN.APL.APL._to_wire"],
            bound="APL with 1-2 items: family 1/2 (6 pooled addresses each) or an unknown family (6 pooled opaque addresses), negation symbolic, prefix over its whole range",
            stubs=["E1"], outside="more items"),
    Harness("H02g", h02g, h02g_pre, lambda tier: [{"_timeout": 300, "_path_timeout": 60}], kind="finite selection (time) with universal 16-bit fields",
            encodes=["dns.rdtypes.ANY.TSIG.TSIG._to_wire", "dns.rdtypes.ANY.TSIG.TSIG.from_wire_parser", "dns.wirebase.Parser.get_uint48"],
            bound="TSIG time signed from 12 boundary values up to 2^48-1 (a fully symbolic 48-bit split / join makes z3 answer unknown), fudge and original id symbolic",
            stubs=["E1", "E5"], outside="other time values"),
    Harness("H02f", h02f, h02f_pre, lambda tier: [{"t": int(dns.rdatatype.from_text(n)), "name": n, "_timeout": 600, "_path_timeout": 60} for n in ("NSEC", "NSEC3", "CSYNC")],
            kind="universal", encodes=["dns.rdtypes.util.Bitmap.to_wire", "dns.rdtypes.util.Bitmap.from_wire_parser"],
            bound="1-2 windows with symbolic window numbers (0..255, increasing) and symbolic 1-2 octet bitmaps", stubs=["E1"],
            outside="more windows, longer bitmaps"),
    Harness("H02c", h02c, h02c_pre, lambda tier: [{"ti": i, "max": 4 if tier == "quick" else 6, "_timeout": 300 if tier == "quick" else 1200} for i in range(len(UNKNOWN_TYPES))], kind="universal over data, finite over codes",
            encodes=["dns.rdata.GenericRdata.from_wire_parser", "dns.rdata.GenericRdata._to_wire", "dns.rdata.GenericRdata.to_styled_text",
                     "dns.rdata.GenericRdata.from_text"],
            bound="5 unassigned type codes x 5 classes, data <= 4 (6) octets", stubs=["E1", "E2"], outside="other codes"),
    Harness("H02d", h02d, h02d_pre, h02d_shards, kind="universal over data, finite over codes",
            encodes=["dns.edns.option_from_wire_parser", "dns.edns.option_from_wire", "dns.edns.GenericOption.to_wire", "dns.edns.ECSOption.from_wire_parser",
                     "dns.edns.EDEOption.from_wire_parser", "dns.edns.NSIDOption.from_wire_parser", "dns.edns.CookieOption.from_wire_parser",
                     "dns.edns.ReportChannelOption.from_wire_parser", "dns.rdtypes.ANY.OPT.OPT.from_wire_parser"],
            bound="16 option codes (all known + one unknown), option data <= 5 (7) octets; ECS: symbolic choice among %d concrete buffers (address text / float conversions realize)" % len(ECS_POOL), stubs=["E1"], outside="longer options"),
]
