"""C10  Zone transactions match a reference model and are all-or-nothing."""

import vf.prelude  # noqa: F401
from vf.api import Harness, S, concrete, hit

import dns.btreezone
import dns.name
import dns.rdata
import dns.rdataclass
import dns.rdataset
import dns.rdatatype
import dns.rrset
import dns.serial
import dns.transaction
import dns.versioned
import dns.zone

PROPERTY = "C10"

ORIGIN = dns.name.from_text("example.")
ZTEXT = """@ 300 IN SOA ns hostmaster 1 2 3 4 5
@ 300 IN NS ns
ns 300 IN A 10.0.0.1
www 300 IN A 10.0.0.1
www 300 IN A 10.0.0.2
alias 600 IN CNAME target.
"""
ZONE_CLASSES = {"plain": dns.zone.Zone, "versioned": dns.versioned.Zone, "btree": dns.btreezone.Zone}

# owner pool: relative spelling, absolute spelling
OWN_REL = [dns.name.empty, dns.name.from_text("www", None), dns.name.from_text("alias", None), dns.name.from_text("new", None),
           dns.name.from_text("ns", None)]
OWN_ABS = [n.derelativize(ORIGIN) for n in OWN_REL]
OUTSIDE = dns.name.from_text("www.other.")
NOWN = len(OWN_REL)

A, CNAME, TXT, SOA, NS = dns.rdatatype.A, dns.rdatatype.CNAME, dns.rdatatype.TXT, dns.rdatatype.SOA, dns.rdatatype.NS
IN = dns.rdataclass.IN


def _rd(t, text):
    return dns.rdata.from_text(IN, t, text, origin=ORIGIN, relativize=False)


# rdata pool (index -> (type, rdata)); relative-zone variants are produced by choose_relativity at use
POOL = [(A, "10.0.0.1"), (A, "10.0.0.2"), (A, "10.0.0.3"), (CNAME, "target."), (TXT, '"x"'), (CNAME, "other.")]
TYPES = [A, CNAME, TXT, SOA, NS]
SINGLETON = [CNAME, SOA]


class World:
    """Owner pool, record pool and initial content of one scenario."""

    def __init__(self, ztext, own_rel, pool, initial, extra_nodes=0):
        self.extra_nodes = extra_nodes
        self.ztext = ztext
        self.own_rel = own_rel
        self.own_abs = [n.derelativize(ORIGIN) for n in own_rel]
        self.pool = pool
        self.initial = initial
        self.n = len(own_rel)


def make_zone(kind, relativize, world=None):
    world = world or BASE
    with concrete():
        z = dns.zone.from_text(world.ztext, origin=ORIGIN, relativize=relativize, zone_factory=ZONE_CLASSES[kind])
        pool = [dns.rdata.from_text(IN, t, txt, origin=ORIGIN, relativize=relativize) for t, txt in world.pool]
    return z, pool


def kind_of(t):
    return "cname" if t == CNAME else "regular"


class Model:
    """B3: owner index -> list of [rdtype, ttl, members]; members = list of pool indices ('soa', serial) for the SOA."""

    def __init__(self, world=None):
        self.world = world or BASE
        self.nodes = [[[e[0], e[1], list(e[2])] for e in n] for n in self.world.initial]

    def copy(self):
        m = Model(self.world)
        m.nodes = [[[e[0], e[1], list(e[2])] for e in n] for n in self.nodes]
        return m

    def find(self, o, t):
        for i in range(len(self.nodes[o])):
            if self.nodes[o][i][0] == t:
                return i
        return -1

    def put(self, o, t, ttl, members):
        node = self.nodes[o]
        i = self.find(o, t)
        if i >= 0:
            del node[i]
        if len(node) > 0:
            if kind_of(t) == "cname":
                node[:] = [e for e in node if False]  # every pool type other than CNAME is REGULAR
            else:
                node[:] = [e for e in node if e[0] != CNAME]
        node.append([t, ttl, members])

    def add(self, o, t, ttl, r):
        i = self.find(o, t)
        if i < 0:
            self.put(o, t, ttl, [r])
            return
        e = self.nodes[o][i]
        nttl = e[1] if e[1] <= ttl else ttl
        if t in SINGLETON:
            members = [r]
        else:
            members = list(e[2]) if r in e[2] else list(e[2]) + [r]
        self.put(o, t, nttl, members)

    def delete_rdataset(self, o, t):
        i = self.find(o, t)
        if i >= 0:
            del self.nodes[o][i]

    def delete_rdata(self, o, t, r, exact):
        """returns 'notexact' when delete_exact must refuse"""
        i = self.find(o, t)
        if i < 0:
            return "notexact" if exact else None
        e = self.nodes[o][i]
        if r not in e[2]:
            return "notexact" if exact else None
        rest = [x for x in e[2] if x != r]
        if rest:
            self.nodes[o][i] = [t, e[1], rest]
        else:
            del self.nodes[o][i]
        return None

    def serial(self):
        i = self.find(0, SOA)
        if i < 0:
            return None
        return self.nodes[0][i][2][0][1]

    def set_serial(self, s):
        i = self.find(0, SOA)
        e = self.nodes[0][i]
        self.put(0, SOA, e[1], [("soa", s)])


ADD, REPLACE, DEL_NAME, DEL_TYPE, DEL_RDATA, DELX_NAME, DELX_TYPE, DELX_RDATA, SERIAL = range(9)
MAX_TTL = 2**32 - 1


def valid_op(op, o, ab, r, ttl, form):
    if form == 3:
        # a two-record rdataset argument (the record r and the next A record of the pool): delete / delete_exact only
        return op in (DEL_RDATA, DELX_RDATA) and 0 <= o <= NOWN and 0 <= r <= 2 and ttl == 0
    ok = 0 <= op <= 8 and 0 <= o <= NOWN and 0 <= r < len(POOL) and 0 <= ttl <= MAX_TTL + 1 and 0 <= form <= 2
    if not ok:
        return False
    if op in (DEL_NAME, DELX_NAME):
        return r == 0 and ttl == 0 and form == 0
    if op in (DEL_TYPE, DELX_TYPE):
        return r < len(TYPES) and ttl == 0 and form == 0
    if op in (DEL_RDATA, DELX_RDATA):
        return ttl == 0 and form != 1 or (ttl == 0 and form == 1)
    if op == SERIAL:
        return o == 0 and form == 0 and r <= 1
    # add / replace: the rdataset and rrset argument forms carry a caller-built TTL (not range-checked by the library)
    return form == 0 or ttl <= MAX_TTL


def apply_op(txn, model, pool, relativize, op, o, ab, r, ttl, form):
    """Apply one operation to the real transaction and to the model.  True iff they agree
    (same exception class or same success)."""
    W = model.world
    POOL = W.pool
    outside = o == W.n
    name = OUTSIDE if outside else (W.own_abs[o] if ab else W.own_rel[o])
    want_exc = None
    m2 = model.copy()
    if op in (ADD, REPLACE):
        t = POOL[r][0]
        rd = pool[r]
        if ttl > MAX_TTL:
            want_exc = ValueError
        elif outside:
            want_exc = KeyError
        elif op == ADD:
            m2.add(o, t, ttl, r)
        else:
            m2.put(o, t, ttl, [r])
        try:
            if form == 0:
                args = (name, ttl, rd)
            elif form == 1:
                args = (name, dns.rdataset.from_rdata(ttl, rd))
            else:
                args = (dns.rrset.from_rdata(name, ttl, rd),)
            if op == ADD:
                txn.add(*args)
            else:
                txn.replace(*args)
            got_exc = None
        except (ValueError, KeyError, dns.transaction.DeleteNotExact) as e:
            got_exc = type(e)
    elif op in (DEL_NAME, DELX_NAME):
        exact = op == DELX_NAME
        if outside:
            want_exc = KeyError
        elif exact and len(model.nodes[o]) == 0:
            want_exc = dns.transaction.DeleteNotExact
        else:
            m2.nodes[o] = []
        try:
            (txn.delete_exact if exact else txn.delete)(name)
            got_exc = None
        except (ValueError, KeyError, dns.transaction.DeleteNotExact) as e:
            got_exc = type(e)
    elif op in (DEL_TYPE, DELX_TYPE):
        exact = op == DELX_TYPE
        t = TYPES[r]
        if outside:
            want_exc = KeyError
        elif model.find(o, t) < 0:
            if exact:
                want_exc = dns.transaction.DeleteNotExact
        else:
            m2.delete_rdataset(o, t)
        try:
            (txn.delete_exact if exact else txn.delete)(name, t)
            got_exc = None
        except (ValueError, KeyError, dns.transaction.DeleteNotExact) as e:
            got_exc = type(e)
    elif op in (DEL_RDATA, DELX_RDATA):
        exact = op == DELX_RDATA
        t = POOL[r][0]
        if outside:
            want_exc = KeyError
        elif form == 3:
            r2 = (r + 1) % 3
            i = m2.find(o, t)
            present = [x for x in (r, r2) if i >= 0 and x in m2.nodes[o][i][2]]
            if exact and len(present) != 2:
                want_exc = dns.transaction.DeleteNotExact
            else:
                for x in present:
                    m2.delete_rdata(o, t, x, False)
        else:
            res = m2.delete_rdata(o, t, r, exact)
            if res == "notexact":
                want_exc = dns.transaction.DeleteNotExact
        try:
            if form == 3:
                pair = dns.rdataset.from_rdata(0, pool[r], pool[(r + 1) % 3])
                args = (name, pair)
            elif form == 1:
                args = (name, dns.rdataset.from_rdata(0, pool[r]))
            elif form == 2:
                args = (dns.rrset.from_rdata(name, 0, pool[r]),)
            else:
                args = (name, pool[r])
            (txn.delete_exact if exact else txn.delete)(*args)
            got_exc = None
        except (ValueError, KeyError, dns.transaction.DeleteNotExact) as e:
            got_exc = type(e)
    else:  # SERIAL: ttl is the value, r the relative flag
        value = ttl
        relative = r == 1
        cur = model.serial()
        if cur is None:
            want_exc = KeyError
        elif relative and value > 2**31 - 1:
            want_exc = ValueError
        else:
            s = (cur + value) % 2**32 if relative else value % 2**32
            if s == 0:
                s = 1
            m2.set_serial(s)
        try:
            txn.update_serial(value, relative)
            got_exc = None
        except (ValueError, KeyError) as e:
            got_exc = type(e)
    if got_exc is not want_exc:
        return False
    if want_exc is None:
        model.nodes = m2.nodes
    return True


def view_agrees(get, exists, model, pool, nodecount=None, touched=None):
    """`get(name, type)` / `exists(name)` agree with the model for every pool owner and type
    (both spellings of every owner; inside a transaction both spellings of the touched owner)."""
    W = model.world
    for o in range(W.n):
        node = model.nodes[o]
        names = (W.own_rel[o], W.own_abs[o]) if (touched is None or touched == o) else (W.own_rel[o],)
        for name in names:
            if exists(name) != (len(node) > 0):
                return False
            for t in TYPES:
                rds = get(name, t)
                i = model.find(o, t)
                if i < 0:
                    if rds is not None and len(rds) > 0:
                        return False
                    continue
                e = node[i]
                if rds is None or rds.ttl != e[1] or len(rds) != len(e[2]):
                    return False
                if t == SOA:
                    if rds[0].serial != e[2][0][1]:
                        return False
                elif t != NS:
                    for m in e[2]:
                        if isinstance(m, str):
                            continue  # a record of the initial zone that is not in the pool
                        if pool[m] not in rds:
                            return False
    if nodecount is not None:
        if nodecount != W.extra_nodes + sum([1 for n in model.nodes if len(n) > 0]):
            return False
    return True


def zone_agrees(z, model, pool):
    def get(name, t):
        try:
            return z.get_rdataset(name, t)
        except KeyError:
            return None

    def exists(name):
        try:
            return z.get_node(name) is not None
        except KeyError:
            return False

    return view_agrees(get, exists, model, pool, len(z.nodes))


# concrete prefixes that build the family of pre-states (each op: op,o,ab,r,ttl,form)
BASE = World(ZTEXT, OWN_REL, POOL,
             [[[SOA, 300, [("soa", 1)]], [NS, 300, ["ns"]]], [[A, 300, [0, 1]]], [[CNAME, 600, [3]]], [], [[A, 300, [0]]]])

PREFIXES = {
    "base": [],
    "www1": [(DEL_RDATA, 1, False, 1, 0, 0)],                      # www has a single A left
    "mixed": [(ADD, 1, False, 4, 100, 0)],                          # www: A + TXT, TTLs differ
    "newtxt": [(ADD, 3, True, 4, 50, 0)],                           # new: TXT only
    "aliasgone": [(DEL_NAME, 2, False, 0, 0, 0)],
    "apexcname": [(ADD, 3, False, 3, 10, 0), (ADD, 3, False, 0, 20, 0)],  # CNAME then A at 'new' (A wins)
    "nosoa": [(DEL_TYPE, 0, False, 3, 0, 0)],
}


def run_prefix(z, model, pool, relativize, prefix):
    with concrete():
        with z.writer() as txn:
            for op in prefix:
                if not apply_op(txn, model, pool, relativize, *op):
                    raise AssertionError("prefix op disagrees with the model: %r" % (op,))


# ---------------------------------------------------------------- H10a state family + symbolic operations

def h10a(op1: int, o1: int, ab1: bool, r1: int, ttl1: int, f1: int, op2: int, o2: int, ab2: bool, r2: int, ttl2: int, f2: int) -> bool:
    """From every pre-state of the family, 1 (2) symbolic operations leave txn view and committed zone equal to the reference model."""
    kind, relativize = S("zone"), S("relativize")
    z, pool = make_zone(kind, relativize)
    model = Model()
    run_prefix(z, model, pool, relativize, PREFIXES[S("state")])
    ops = [(op1, o1, ab1, r1, ttl1, f1), (op2, o2, ab2, r2, ttl2, f2)][:S("n")]
    txn = z.writer()
    for op in ops:
        if not apply_op(txn, model, pool, relativize, *op):
            return False
        # reads inside the transaction see its own writes
        if not view_agrees(lambda n, t: txn.get(n, t), txn.name_exists, model, pool, touched=op[1]):
            return False
    txn.commit()
    hit("committed")
    return zone_agrees(z, model, pool)


def h10a_pre(op1, o1, ab1, r1, ttl1, f1, op2, o2, ab2, r2, ttl2, f2):
    if not valid_op(op1, o1, ab1, r1, ttl1, f1):
        return False
    if S("op1") is not None and op1 != S("op1"):
        return False
    if S("forms") is False and (f1 != 0 or f2 != 0):
        return False
    if f1 == 3 and S("state") not in ("base", "www1"):
        return False
    if S("n") == 2:
        return valid_op(op2, o2, ab2, r2, ttl2, f2)
    return op2 == 0 and o2 == 0 and not ab2 and r2 == 0 and ttl2 == 0 and f2 == 0


def h10a_shards(tier):
    out = []
    for kind in ("plain", "versioned", "btree"):
        for rel in (True, False):
            if tier == "quick" and kind == "versioned":
                continue  # versioned zones share WritableVersion with plain zones (thorough tier; H10b/H10e keep them in quick)
            states = (["base", "mixed", "apexcname"] if rel else ["base", "mixed"]) if tier == "quick" else list(PREFIXES)
            for st in states:
                for op1 in range(9):
                    out.append({"zone": kind, "relativize": rel, "state": st, "n": 1, "op1": op1, "forms": st == "base",
                                "_timeout": 600, "_path_timeout": 60})
            if tier == "thorough":
                for op1 in range(9):
                    out.append({"zone": kind, "relativize": rel, "state": "base", "n": 2, "op1": op1, "forms": False,
                                "_timeout": 3000, "_path_timeout": 60})
    return out


# ---------------------------------------------------------------- H10e delegations created/removed inside a transaction (all zone classes)

DELEG = World(ZTEXT + "host.sub 300 IN A 10.0.0.1\nsub 300 IN TXT \"t\"\n",
              [dns.name.from_text("sub", None), dns.name.from_text("host.sub", None), dns.name.empty],
              [(NS, "ns.example."), (A, "10.0.0.1"), (A, "10.0.0.2"), (TXT, '"x"')],
              [[[TXT, 300, ["t"]]], [[A, 300, [1]]], [[SOA, 300, [("soa", 1)]], [NS, 300, ["ns"]]]], extra_nodes=3)


def h10e(op1: int, o1: int, r1: int, op2: int, o2: int, r2: int, ttl: int) -> bool:
    """Two operations in one transaction at and below a (new or removed) delegation point behave like the model in every zone class."""
    kind, relativize = S("zone"), S("relativize")
    z, pool = make_zone(kind, relativize, DELEG)
    model = Model(DELEG)
    if S("pre_ns"):
        with concrete():
            with z.writer() as t0:
                if not apply_op(t0, model, pool, relativize, ADD, 0, False, 0, 300, 0):
                    raise AssertionError("prefix")
    txn = z.writer()
    for op, o, r in ((op1, o1, r1), (op2, o2, r2)):
        rr = r
        if op in (DEL_TYPE, DELX_TYPE):
            rr = TYPES.index(DELEG.pool[r][0])
        if not apply_op(txn, model, pool, relativize, op, o, False, rr, ttl if op in (ADD, REPLACE) else 0, 0):
            return False
        if not view_agrees(lambda n, t: txn.get(n, t), txn.name_exists, model, pool):
            return False
    txn.commit()
    hit("committed")
    return zone_agrees(z, model, pool)


def h10e_pre(op1, o1, r1, op2, o2, r2, ttl):
    ops = (ADD, REPLACE, DEL_TYPE, DEL_RDATA, DEL_NAME, DELX_RDATA)
    return (op1 in ops and op2 in ops and 0 <= o1 <= 1 and 0 <= o2 <= 1 and 0 <= r1 <= 3 and 0 <= r2 <= 3 and 0 <= ttl <= 400
            and op1 == S("op1") and (op1 != DEL_NAME or r1 == 0) and (op2 != DEL_NAME or r2 == 0))


def h10e_shards(tier):
    out = []
    for kind in ("btree", "plain", "versioned"):
        for rel in ((True,) if tier == "quick" else (True, False)):
            for pre_ns in (False, True):
                for op1 in (ADD, REPLACE, DEL_TYPE, DEL_RDATA, DEL_NAME, DELX_RDATA):
                    if tier == "quick" and kind != "btree" and op1 not in (ADD, DEL_TYPE):
                        continue
                    if tier == "quick" and kind == "versioned" and pre_ns:
                        continue
                    out.append({"zone": kind, "relativize": rel, "pre_ns": pre_ns, "op1": op1, "_timeout": 900, "_path_timeout": 60})
    return out


# ---------------------------------------------------------------- H10f signature rdatasets: the (type, covers) key

RRSIG = dns.rdatatype.RRSIG
MX = dns.rdatatype.MX
SIGTXT = "%s 8 2 300 20300101000000 20200101000000 %d example. AQID"
ZSIG = ZTEXT + "".join(["%s 300 IN RRSIG %s\n" % (o, SIGTXT % (c, 1)) for o, c in (("www", "A"), ("www", "TXT"), ("sig", "A"))])
SIG_OWN = [dns.name.from_text("www", None), dns.name.from_text("sig", None), dns.name.from_text("new", None)]
SIG_COVERS = [A, TXT, MX]
# record pool: (covers, key tag)
SIG_POOL = [(0, 1), (0, 2), (1, 1), (2, 1)]
S_DEL_TYPE, S_DELX_TYPE, S_DEL_RD, S_DELX_RD, S_ADD, S_REPLACE, S_DEL_A = range(7)


def h10f(op1: int, o1: int, c1: int, r1: int, op2: int, o2: int, c2: int, r2: int, ab: bool) -> bool:
    """Rdatasets are keyed by (type, covers): adding / replacing / deleting RRSIG rdatasets by covered type or by record, in every zone class, equals the model; a node whose last rdataset goes away disappears."""
    kind, relativize = S("zone"), S("relativize")
    with concrete():
        z = dns.zone.from_text(ZSIG, origin=ORIGIN, relativize=relativize, zone_factory=ZONE_CLASSES[kind])
        pool = [dns.rdata.from_text(IN, RRSIG, SIGTXT % (dns.rdatatype.to_text(SIG_COVERS[c]), tag), origin=ORIGIN, relativize=relativize)
                for c, tag in SIG_POOL]
    # model: owner -> {covers index: [ttl, [pool indices]]}; other[o] = the owner also has non-signature data
    model = [{0: [300, [0]], 1: [300, [2]]}, {0: [300, [0]]}, {}]
    other = [True, False, False]
    txn = z.writer()
    for op, o, c, r in ((op1, o1, c1, r1), (op2, o2, c2, r2)):
        name = SIG_OWN[o].derelativize(ORIGIN) if ab else SIG_OWN[o]
        want = None
        m = model[o]
        if op in (S_DEL_TYPE, S_DELX_TYPE):
            if c in m:
                del m[c]
            elif op == S_DELX_TYPE:
                want = dns.transaction.DeleteNotExact
            try:
                (txn.delete_exact if op == S_DELX_TYPE else txn.delete)(name, RRSIG, SIG_COVERS[c])
                got = None
            except dns.transaction.DeleteNotExact as e:
                got = type(e)
        elif op in (S_DEL_RD, S_DELX_RD):
            cc = SIG_POOL[r][0]
            if cc in m and r in m[cc][1]:
                rest = [x for x in m[cc][1] if x != r]
                if rest:
                    m[cc] = [m[cc][0], rest]
                else:
                    del m[cc]
            elif op == S_DELX_RD:
                want = dns.transaction.DeleteNotExact
            try:
                (txn.delete_exact if op == S_DELX_RD else txn.delete)(name, pool[r])
                got = None
            except dns.transaction.DeleteNotExact as e:
                got = type(e)
        elif op in (S_ADD, S_REPLACE):
            cc = SIG_POOL[r][0]
            if op == S_ADD and cc in m:
                m[cc] = [min(m[cc][0], 200), m[cc][1] if r in m[cc][1] else m[cc][1] + [r]]
            else:
                m[cc] = [200, [r]]
            (txn.add if op == S_ADD else txn.replace)(name, 200, pool[r])
            got = None
        else:
            if o == 0:
                other[0] = False
            txn.delete(name, A)
            got = None
        if got is not want:
            return False
        # reads inside the transaction
        if not sig_view(lambda n, cv: txn.get(n, RRSIG, cv), txn.name_exists, model, other, pool):
            return False
    txn.commit()
    hit("committed")

    def zget(n, cv):
        try:
            return z.get_rdataset(n, RRSIG, cv)
        except KeyError:
            return None

    def zexists(n):
        try:
            return z.get_node(n) is not None
        except KeyError:
            return False

    return sig_view(zget, zexists, model, other, pool)


def sig_view(get, exists, model, other, pool):
    for o in range(len(SIG_OWN)):
        name = SIG_OWN[o]
        if exists(name) != (len(model[o]) > 0 or other[o]):
            return False
        for c in range(len(SIG_COVERS)):
            rds = get(name, SIG_COVERS[c])
            if c not in model[o]:
                if rds is not None and len(rds) > 0:
                    return False
                continue
            ttl, members = model[o][c]
            if rds is None or rds.ttl != ttl or len(rds) != len(members):
                return False
            for r in members:
                if pool[r] not in rds:
                    return False
    return True


def h10f_pre(op1, o1, c1, r1, op2, o2, c2, r2, ab):
    for op, o, c, r in ((op1, o1, c1, r1), (op2, o2, c2, r2)):
        if not (0 <= op <= 6 and 0 <= o <= 2 and 0 <= c <= 2 and 0 <= r <= 3):
            return False
        if op in (S_DEL_TYPE, S_DELX_TYPE) and r != 0:
            return False
        if op in (S_DEL_RD, S_DELX_RD, S_ADD, S_REPLACE) and c != 0:
            return False
        if op == S_DEL_A and (c != 0 or r != 0):
            return False
    if S("tier") == "quick" and ab and op1 != S_DEL_TYPE:
        return False  # quick: the absolute spelling only with delete-by-type
    if S("tier") == "quick" and op2 in (S_REPLACE, S_DEL_A) and op1 >= S_ADD:
        return False  # quick: add / replace / delete-A are followed by a signature deletion or an add
    return op1 == S("op1")


def h10f_shards(tier):
    # (quick: versioned zones share WritableVersion with plain zones and are left to the thorough tier)
    return [{"zone": kind, "relativize": rel, "op1": op1, "tier": tier, "_timeout": 900, "_path_timeout": 60}
            for kind in (("plain", "btree") if tier == "quick" else ("plain", "versioned", "btree"))
            for rel in ((True,) if tier == "quick" else (True, False)) for op1 in range(7)]


# ---------------------------------------------------------------- H10b atomicity: rollback / exception leave the zone untouched

class Boom(Exception):
    pass


def snapshot(z):
    out = []
    for name in sorted(z.nodes.keys()):
        node = z.nodes[name]
        out.append((name.to_text(), sorted([(int(rds.rdtype), rds.ttl, sorted([rd.to_text() for rd in rds])) for rds in node])))
    return out


def h10b(op1: int, o1: int, ab1: bool, r1: int, ttl1: int, op2: int, o2: int, ab2: bool, r2: int, ttl2: int, end: int) -> bool:
    """A transaction ended by rollback(), or by an exception raised after operation j, leaves zone (and version list) as before."""
    kind, relativize = S("zone"), S("relativize")
    z, pool = make_zone(kind, relativize)
    model = Model()
    with concrete():
        before = snapshot(z)
        versions = [v.id for v in z._versions] if kind != "plain" else None
    try:
        with z.writer() as txn:
            if not apply_op(txn, model, pool, relativize, op1, o1, ab1, r1, ttl1, 0):
                return False
            if end == 0:
                raise Boom()
            if not apply_op(txn, model, pool, relativize, op2, o2, ab2, r2, ttl2, 0):
                return False
            if end == 1:
                raise Boom()
            if end == 2:
                txn.rollback()
            else:
                # an operation the library refuses (non-origin SOA) raises out of the block
                txn.add(OWN_REL[1], 5, z.get_rdataset(dns.name.empty if relativize else ORIGIN, SOA)[0])
    except Boom:
        pass
    except ValueError:
        if end != 3:
            return False
    hit("ended")
    with concrete():
        after = snapshot(z)
        versions2 = [v.id for v in z._versions] if kind != "plain" else None
    if after != before or versions2 != versions:
        return False
    # the zone is still usable and a later writer is admitted
    with z.writer() as t2:
        t2.add(OWN_REL[3], 1, pool[4])
    return z.get_rdataset(OWN_REL[3] if relativize else OWN_ABS[3], TXT) is not None


def h10b_pre(op1, o1, ab1, r1, ttl1, op2, o2, ab2, r2, ttl2, end):
    return (valid_op(op1, o1, ab1, r1, ttl1, 0) and valid_op(op2, o2, ab2, r2, ttl2, 0) and 0 <= end <= 3
            and op1 == S("op1") and (end != 0 or (op2 == 0 and o2 == 0 and r2 == 0 and ttl2 == 0 and not ab2))
            and o1 in (1, 2, 3) and r1 < 4 and o2 == 1 and r2 in (0, 3) and ttl1 <= 1 and ttl2 <= 1 and not ab2
            and op2 in (ADD, DEL_NAME, DEL_RDATA))


def h10b_shards(tier):
    out = []
    for kind in ("plain", "versioned", "btree"):
        for rel in ((True,) if tier == "quick" else (True, False)):
            for op1 in ((ADD, DEL_NAME, DEL_RDATA) if tier == "quick" else range(9)):
                out.append({"zone": kind, "relativize": rel, "op1": op1, "_timeout": 900, "_path_timeout": 60})
    return out


# ---------------------------------------------------------------- H10c serial arithmetic at full width

def h10c(a: int, b: int) -> bool:
    """dns.serial.Serial add/sub/compare = RFC 1982 for all operands (bits 8 and 32)."""
    bits = S("bits")
    m = 2**bits
    half = 2**(bits - 1)
    sa, sb = dns.serial.Serial(a, bits), dns.serial.Serial(b, bits)
    if sa.value != a % m:
        return False
    av, bv = a % m, b % m
    # order: defined iff distance != half
    d = (bv - av) % m
    lt = sa < sb
    gt = sa > sb
    if d == 0:
        if lt or gt or not (sa == sb):
            return False
    elif d < half:
        if not lt or gt:
            return False
    elif d > half:
        if lt or not gt:
            return False
    else:
        if lt or gt:
            return False
    # addition of a plain int delta
    try:
        r = sa + b
        if abs(b) > half - 1:
            return False
        if r.value != (av + b) % m:
            return False
        if 0 < b and not (sa < r):
            return False
    except ValueError:
        if abs(b) <= half - 1:
            return False
    try:
        r = sa - b
        if abs(b) > half - 1 or r.value != (av - b) % m:
            return False
    except ValueError:
        if abs(b) <= half - 1:
            return False
    hit("serial")
    return True


def h10c_pre(a, b):
    m = 2**S("bits")
    return -m <= a <= 2 * m and -m <= b <= 2 * m


def h10c2(value: int, relative: bool) -> bool:
    """update_serial(value, relative) through a real zone = RFC 1982 increment (0 -> 1), ValueError for negative / too large."""
    kind = S("zone")
    cur = S("cur")
    with concrete():
        z = dns.zone.from_text(ZTEXT.replace(" 1 2 3 4 5", " %d 2 3 4 5" % cur), origin=ORIGIN, relativize=True,
                               zone_factory=ZONE_CLASSES[kind])
    want_exc = None
    if value < 0:
        want_exc = ValueError
    elif relative and value > 2**31 - 1:
        want_exc = ValueError
    try:
        with z.writer() as txn:
            txn.update_serial(value, relative)
    except ValueError:
        return want_exc is ValueError and z.get_rdataset(dns.name.empty, SOA)[0].serial == cur
    if want_exc is not None:
        return False
    s = (cur + value) % 2**32 if relative else value % 2**32
    if s == 0:
        s = 1
    hit("updated")
    return z.get_rdataset(dns.name.empty, SOA)[0].serial == s


def h10c2_pre(value, relative):
    return -2 <= value <= 2**33


def h10c2_shards(tier):
    curs = [0, 1, 2**31 - 1, 2**31, 2**32 - 6, 2**32 - 1]
    return [{"zone": k, "cur": c, "_timeout": 200, "_path_timeout": 60} for k in ("plain", "versioned", "btree") for c in curs]


# ---------------------------------------------------------------- H10d life-cycle

def h10d(which: int, ended_by: int) -> bool:
    """Ended transactions raise AlreadyEnded on every public method; read transactions raise ReadOnly on every mutator."""
    kind = S("zone")
    z, pool = make_zone(kind, True)
    name = OWN_REL[1]
    calls = [
        lambda t: t.get(name, A), lambda t: t.add(name, 1, pool[0]), lambda t: t.replace(name, 1, pool[0]),
        lambda t: t.delete(name), lambda t: t.delete_exact(name), lambda t: t.name_exists(name),
        lambda t: t.update_serial(), lambda t: t.changed(), lambda t: t.commit(), lambda t: t.rollback(),
        lambda t: list(t.iterate_rdatasets()), lambda t: list(t.iterate_names()), lambda t: list(iter(t)),
    ]
    mutators = (1, 2, 3, 4, 6)
    if S("mode") == "ended":
        t = z.writer() if ended_by < 2 else z.reader()
        if ended_by % 2 == 0:
            t.commit()
        else:
            t.rollback()
        try:
            calls[which](t)
        except dns.transaction.AlreadyEnded:
            hit("refused")
            return True
        return False
    t = z.reader()
    before = snapshot(z)
    try:
        calls[which](t)
        ok = which not in mutators
    except dns.transaction.ReadOnly:
        ok = which in mutators
    t.rollback() if which not in (8, 9) else None
    hit("refused")
    return ok and snapshot(z) == before


def h10d_pre(which, ended_by):
    return 0 <= which <= 12 and 0 <= ended_by <= 3


def h10d_shards(tier):
    return [{"zone": k, "mode": m, "_timeout": 300, "_path_timeout": 60} for k in ("plain", "versioned", "btree") for m in ("ended", "reader")]


ENC = ["dns.transaction.Transaction._add", "dns.transaction.Transaction._delete", "dns.transaction.Transaction._rdataset_from_args",
       "dns.transaction.Transaction.update_serial", "dns.transaction.Transaction._end", "dns.transaction.Transaction.__exit__",
       "dns.zone._validate_name", "dns.zone.WritableVersion._maybe_cow_with_name", "dns.zone.WritableVersion.put_rdataset",
       "dns.zone.WritableVersion.delete_rdataset", "dns.zone.WritableVersion.delete_node", "dns.zone.Transaction._end_transaction",
       "dns.node.Node._append_rdataset", "dns.node.Node.replace_rdataset", "dns.node.Node.delete_rdataset",
       "dns.btreezone.WritableVersion._maybe_cow_with_name", "dns.btreezone.WritableVersion.put_rdataset",
       "dns.btreezone.WritableVersion.delete_rdataset", "dns.btreezone.WritableVersion.delete_node",
       "dns.versioned.Zone._commit_version", "dns.rdataset.Rdataset.union_update", "dns.rdataset.Rdataset.update_ttl"]

HARNESSES = [
    Harness("H10a", h10a, h10a_pre, h10a_shards, kind="finite selection of operations/owners/records with universal TTLs and serials",
            encodes=ENC,
            bound="3 zone classes x relativize on/off x 6 (7) pre-states built by concrete prefixes, then 1 symbolic operation among add/replace/delete x3/delete_exact x3/update_serial over 5 owners + an out-of-zone name, relative or absolute spelling, 6 pool records, TTL and serial value symbolic over 0..2^32+1, 3 argument forms (from the base state); thorough: 2 symbolic operations from the base state",
            stubs=["E6"], outside="sequences > 2 symbolic operations beyond the state family; RRSIG/covers; classes other than IN", batch=3),
    Harness("H10e", h10e, h10e_pre, h10e_shards, kind="finite selection with universal TTL",
            encodes=ENC + ["dns.btreezone.WritableVersion.update_glue_flag"],
            bound="zone with sub (TXT) and host.sub (A), optionally sub NS committed before; 2 symbolic operations (add/replace/delete type/delete rdata/delete name/delete_exact rdata) over {sub, host.sub} x {NS, A1, A2, TXT}, TTL symbolic; btree (all first operations), plain/versioned (2 first operations quick)",
            stubs=["E6"], outside="deeper delegation nesting (C20)"),
    Harness("H10f", h10f, h10f_pre, h10f_shards, kind="finite selection of operations, exhaustive over pairs",
            encodes=["dns.transaction.Transaction._delete", "dns.transaction.Transaction._add", "dns.zone.WritableVersion.delete_rdataset",
                     "dns.zone.WritableVersion.put_rdataset", "dns.node.Node.delete_rdataset", "dns.node.Node.find_rdataset",
                     "dns.btreezone.WritableVersion.delete_rdataset"],
            bound="2 operations in one transaction out of {delete / delete_exact by (RRSIG, covers), delete / delete_exact of one RRSIG record, add, replace, delete of the A rdataset} over 3 owners (signatures beside other data, a node holding only a signature rdataset, a new name), 3 covered types, 4 signature records; relative / absolute spelling",
            stubs=["E5", "E6"], outside="SIG; more than two covered types per node"),
    Harness("H10b", h10b, h10b_pre, h10b_shards, kind="finite selection",
            encodes=["dns.transaction.Transaction.__exit__", "dns.transaction.Transaction._end", "dns.zone.Transaction._end_transaction",
                     "dns.versioned.Zone._end_write", "dns.zone.Zone._end_write"],
            bound="2 symbolic operations, then exception after op 1 / after op 2 / explicit rollback / library-raised ValueError; zone snapshot and version-id list compared; 3 zone classes",
            stubs=["E6"], outside="exceptions raised inside library internals mid-operation"),
    Harness("H10c", h10c, h10c_pre, lambda tier: [{"bits": 8, "_timeout": 300}, {"bits": 32, "_timeout": 300}], kind="universal",
            encodes=["dns.serial.Serial.__init__", "dns.serial.Serial.__lt__", "dns.serial.Serial.__gt__", "dns.serial.Serial.__add__",
                     "dns.serial.Serial.__sub__", "dns.serial.Serial.__eq__"],
            bound="both operands symbolic over [-2^bits, 2^(bits+1)], bits in {8, 32}", stubs=[], outside="other widths"),
    Harness("H10c2", h10c2, h10c2_pre, h10c2_shards, kind="universal",
            encodes=["dns.transaction.Transaction.update_serial", "dns.serial.Serial.__add__"],
            bound="value symbolic over [-2, 2^33], relative symbolic, current serial from {0,1,2^31-1,2^31,2^32-6,2^32-1}, 3 zone classes",
            stubs=["E6"], outside=""),
    Harness("H10d", h10d, h10d_pre, h10d_shards, kind="finite selection",
            encodes=["dns.transaction.Transaction._check_ended", "dns.transaction.Transaction._check_read_only"],
            bound="13 public methods x 4 ways of ending; reader x 13 methods; 3 zone classes", stubs=[], outside=""),
]
