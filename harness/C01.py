"""C01  Name text and wire codecs are exact inverses within DNS length limits."""

import io

import vf.prelude  # noqa: F401
from vf.api import Harness, S, hit

import dns.exception
import dns.name
import dns.tokenizer
import dns.wirebase

from harness.common import step_budget
from harness.oracles import Reject, fold, fold_octet, ref_name_from_wire, valid_labels

PROPERTY = "C01"
ROOT = dns.name.root
EXAMPLE = dns.name.Name([b"example", b""])


def _labels(data, shape, absolute):
    out = []
    p = 0
    for ln in shape:
        out.append(data[p:p + ln])
        p += ln
    if absolute:
        out.append(b"")
    return out


# ---------------------------------------------------------------- H01a text round trip

def h01a(data: bytes, absolute: bool, omit_dot: bool) -> bool:
    """to_text -> from_text gives byte-identical labels for every octet content."""
    n = dns.name.Name(_labels(data, S("shape"), absolute))
    if omit_dot:
        t = n.to_text(omit_final_dot=True)
        back = dns.name.from_text(t, origin=ROOT if absolute else None)
    else:
        t = n.to_text()
        back = dns.name.from_text(t, origin=None)
    hit("compared")
    return back.labels == n.labels


def h01a_pre(data, absolute, omit_dot):
    return len(data) == sum(S("shape"))


def h01a_shards(tier):
    shapes = [(1,), (2,), (3,), (1, 1), (2, 1), (1, 2), (1, 1, 1)]
    if tier == "thorough":
        shapes += [(4,), (2, 2), (3, 1), (1, 3), (1, 2, 1), (2, 1, 1), (1, 1, 2)]
    out = [{"shape": s, "_timeout": 1800 if sum(s) >= 4 else (240 if sum(s) >= 3 else 60), "_path_timeout": 40} for s in shapes]
    out.append({"shape": (), "_timeout": 30})
    return out


# ---------------------------------------------------------------- H01b zone-file path

SUFFIXES = ["", " x", "\n", ";c", "\t", " ("]
ORIGINS = [None, ROOT, EXAMPLE]


def h01b(data: bytes, absolute: bool, suffix: int, origin_i: int, relativize: bool) -> bool:
    """Tokenizer.get_name on the printed name (+ any token terminator) = the name, relativity chosen as documented."""
    n = dns.name.Name(_labels(data, S("shape"), absolute))
    origin = ORIGINS[origin_i]
    text = n.to_text() + SUFFIXES[suffix]
    tok = dns.tokenizer.Tokenizer(text)
    got = tok.get_name(origin, relativize)
    exp = n
    if not absolute and origin is not None:
        exp = dns.name.Name(list(n.labels) + list(origin.labels))
    exp = exp.choose_relativity(origin, relativize)
    hit("compared")
    return got.labels == exp.labels


def h01b_pre(data, absolute, suffix, origin_i, relativize):
    return len(data) == sum(S("shape")) and 0 <= suffix < len(SUFFIXES) and 0 <= origin_i < len(ORIGINS)


def h01b_shards(tier):
    shapes = [(1,), (2,), (1, 1)] + ([(3,), (2, 1), (1, 2)] if tier == "thorough" else [])
    return [{"shape": s, "_timeout": 3000 if sum(s) >= 3 else 300, "_path_timeout": 40} for s in shapes]


# ---------------------------------------------------------------- H01c uncompressed wire, real limits

def h01c(l0: bytes, l1: bytes, l2: bytes, l3: bytes, l4: bytes, absolute: bool) -> bool:
    """Name(labels) raises exactly when the DNS limits (63 / 255 / empty label only last) are violated."""
    k = S("nlabels")
    labels = [l0, l1, l2, l3, l4][:k]
    if absolute:
        labels.append(b"")
    try:
        n = dns.name.Name(labels)
    except (dns.name.LabelTooLong, dns.name.NameTooLong, dns.name.EmptyLabel):
        return not valid_labels(labels)
    hit("valid")
    return valid_labels(labels) and len(n.labels) == len(labels)


def h01c_shards(tier):
    return [{"nlabels": k, "_timeout": 200, "_path_timeout": 40} for k in ((1, 2, 3, 4) if tier == "quick" else (1, 2, 3, 4, 5))]


def h01c2(data: bytes, absolute: bool) -> bool:
    """to_wire -> from_wire is the identity (and consumes exactly the encoding) at the real length limits."""
    shape = S("shape")
    labels = _labels(data, shape, absolute)
    try:
        n = dns.name.Name(labels)
    except (dns.name.LabelTooLong, dns.name.NameTooLong):
        return not valid_labels(labels)
    hit("valid")
    try:
        w = n.to_wire(origin=ROOT)
    except dns.name.NameTooLong:
        # a relative name may be 255 octets long by itself; with the root appended it cannot be encoded
        return not absolute and sum(shape) + len(shape) + 1 > 255
    if len(w) > 255 or len(w) != sum(shape) + len(shape) + 1:
        return False
    back, used = dns.name.from_wire(b"\xbb" + w + b"\xaa", 1)
    exp = list(labels) if absolute else list(labels) + [b""]
    return list(back.labels) == exp and used == len(w)


def h01c2_pre(data, absolute):
    return len(data) == sum(S("shape"))


def h01c2_shards(tier):
    shapes = [(1,), (63,), (64,), (63, 63, 63, 61), (63, 63, 63, 62), (63, 63, 63, 60, 1), (1,) * 127, (1,) * 128, (62, 63)]
    return [{"shape": s, "_timeout": 200, "_path_timeout": 60} for s in shapes]


# ---------------------------------------------------------------- H01e arbitrary wire vs reference decoder

def h01e(buf: bytes, off: int) -> bool:
    """from_wire(buf, off) = reference decoder (labels, consumed) or FormError exactly when the reference rejects."""
    try:
        ref = ref_name_from_wire(buf, off)
    except Reject:
        ref = None
    try:
        # termination: with strictly decreasing pointers a buffer of n octets allows < n hops
        with step_budget(dns.wirebase.Parser, "seek", len(buf) + 2):
            n, used = dns.name.from_wire(buf, off)
    except dns.exception.FormError:
        return ref is None
    if ref is None:
        return False
    hit("accepted")
    if list(n.labels) != ref[0] or not valid_labels(n.labels):
        return False
    # The consumed count is compared when the decoded label data lies entirely before the
    # end of the name being read (always the case for names the renderer can emit).  A
    # pointer whose target's label data runs over the pointer itself is outside C01.
    if ref[2] <= off + ref[1]:
        return used == ref[1]
    return used >= ref[1]


def h01e_pre(buf, off):
    return len(buf) == S("len") and 0 <= off <= S("len")


def h01e_shards(tier):
    top = 6 if tier == "quick" else 8
    # (measured: 17 s, 55 s, 227 s for 5, 6, 7 octets: x4 per octet)
    return [{"len": k, "_timeout": 120 if k <= 6 else (600 if k == 7 else 2700), "_path_timeout": 30} for k in range(0, top + 1)]


# ---------------------------------------------------------------- H01f compressed wire at the real limits

def h01f(l1: bytes, l2: bytes, l3: bytes, l4: bytes, k: int) -> bool:
    """A name of two labels followed by a pointer into an earlier two-label name, label lengths per shard, any content:
    the decoder returns exactly the reference's labels (<= 255 octets in all) or raises a FormError exactly when the total exceeds 255."""
    first = bytes([len(l1)]) + l1 + bytes([len(l2)]) + l2 + b"\x00"
    targets = [0, 1 + len(l1), 2 + len(l1) + len(l2)]
    off = len(first)
    buf = first + bytes([len(l3)]) + l3 + bytes([len(l4)]) + l4 + bytes([0xC0 + targets[k] // 256, targets[k] % 256])
    total = (1 + len(l3)) + (1 + len(l4)) + [(1 + len(l1)) + (1 + len(l2)) + 1, (1 + len(l2)) + 1, 1][k]
    try:
        with step_budget(dns.wirebase.Parser, "seek", 8):
            n, used = dns.name.from_wire(buf, off)
    except dns.exception.FormError:
        hit("refused")
        return total > 255
    hit("accepted")
    if total > 255:
        return False
    want = [l3, l4] + [[l1, l2, b""], [l2, b""], [b""]][k]
    return list(n.labels) == want and used == len(buf) - off and valid_labels(n.labels)


def h01f_pre(l1, l2, l3, l4, k):
    # (label lengths are fixed per shard: slicing a buffer at a symbolic index would enumerate the lengths one path at a time)
    a1, a2, a3, a4 = S("lens")
    return len(l1) == a1 and len(l2) == a2 and len(l3) == a3 and len(l4) == a4 and 0 <= k <= 2


H01F_SHAPES = [(63, 63, 63, 59), (63, 63, 63, 60), (63, 63, 63, 61), (63, 63, 63, 62), (63, 63, 63, 63), (1, 1, 1, 1), (63, 1, 1, 63), (1, 63, 63, 1),
               (62, 63, 63, 61), (61, 63, 63, 63), (60, 63, 63, 63)]


# ---------------------------------------------------------------- H01d compressed wire, shared table

def _ref_suffix_at(msg, pos, labels):
    """Does exactly the label sequence `labels` (ending in root) start at msg[pos] (following pointers)?"""
    try:
        got = ref_name_from_wire(msg, pos)[0]
    except Reject:
        return False
    if S("strict"):
        return got == list(labels)
    return len(got) == len(labels) and all([fold(x) == fold(y) for x, y in zip(got, labels)])


def h01d(a0: int, a1: int, b0: int, b1: int, c0: int, pad: int, shared: bool) -> bool:
    """Names rendered into one buffer with one compression table decode back exactly; pointers are sound."""
    k = S("names")
    origin = [b"ex", b""]
    names = [
        [bytes([a0]), bytes([a1])] + origin,
        [bytes([b0]), bytes([b1])] + (origin if shared else [b""]),
        [bytes([c0])] + origin,
    ][:k]
    f = io.BytesIO()
    f.write(b"\x00" * pad)
    compress = {}
    starts = []
    for labels in names:
        starts.append(f.tell())
        dns.name.Name(labels).to_wire(f, compress)
    msg = f.getvalue()
    # every table entry is <= 0x3FFF and really is where that suffix starts
    for nm, pos in compress.items():
        if pos > 0x3FFF:
            return False
        if not _ref_suffix_at(msg, pos, list(nm.labels)):
            return False
    for labels, st in zip(names, starts):
        try:
            got, used, _f = ref_name_from_wire(msg, st)
        except Reject:
            return False
        # DNS-equal always; byte-identical unless a case-only coincidence was compressed (F-C01-case)
        if len(got) != len(labels):
            return False
        n2, used2 = dns.name.from_wire(msg, st)
        if list(n2.labels) != got or used2 != used:
            return False
        if dns.name.Name(got) != dns.name.Name(labels):
            return False
        if S("strict") and got != labels:
            return False
    hit("decoded")
    return True


def h01d_pre(a0, a1, b0, b1, c0, pad, shared):
    ok = all([0 <= x <= 255 for x in (a0, a1, b0, b1, c0)])
    lo, hi = S("pad")
    return ok and lo <= pad <= hi


def h01d_shards(tier):
    out = []
    for names in ((2, 3) if tier == "thorough" else (2,)):
        for padr in ((0, 1), (0x3FF6, 0x4001)):
            for strict in (True, False):
                out.append({"names": names, "pad": padr, "strict": strict, "_timeout": 400 if names == 2 else 2400, "_path_timeout": 60})
    return out


def ci(x, y):
    """x and y differ, but only in ASCII case."""
    return x != y and fold_octet(x) == fold_octet(y)


def case_only_coincidence(a0, a1, b0, b1, c0, shared, names):
    """F-C01-case: some name shares a suffix with an earlier one up to ASCII case only."""
    r = False
    if shared:
        r = r or ci(a1, b1) or (a1 == b1 and ci(a0, b0))
    if names >= 3:
        r = r or ci(c0, a1) or (shared and ci(c0, b1))
    return r


# ---------------------------------------------------------------- H01g producers respect limits

def _ok_name(n):
    return valid_labels(list(n.labels))


ALLOWED_G = (dns.name.LabelTooLong, dns.name.NameTooLong, dns.name.EmptyLabel, dns.name.AbsoluteConcatenation,
             dns.name.NoParent, dns.name.NeedSubdomainOfOrigin, dns.name.NeedAbsoluteNameOrOrigin)


def h01g(l0: bytes, l1: bytes, o0: bytes, absolute: bool, depth: int) -> bool:
    """Every Name-producing operation yields a valid name or raises one of the documented exceptions."""
    op = S("op")
    shape = S("shape")
    if shape is not None:
        # content-comparing operations: lengths fixed by the shard, every octet symbolic
        if len(l0) != shape[0] or len(l1) != shape[1] or len(o0) != shape[2]:
            return True
    try:
        labels = [l0, l1] + ([b""] if absolute else [])
        n = dns.name.Name(labels)
        origin = dns.name.Name([o0, b""])
    except ALLOWED_G:
        return True
    hit("built")
    try:
        if op == 0:
            r = n.concatenate(origin)
        elif op == 1:
            r = n.derelativize(origin)
        elif op == 2:
            r = n.relativize(origin)
        elif op == 3:
            r = n.parent()
        elif op == 4:
            a, b = n.split(depth)
            return _ok_name(a) and _ok_name(b) and list(a.labels) + list(b.labels) == list(n.labels)
        elif op == 5:
            r = n.canonicalize()
        elif op == 6:
            r = dns.name.Name(list(n.labels)[:1] + list(origin.labels))
        elif op == 7:
            r = n + origin
        else:
            r = origin.relativize(n) if absolute else n
    except ALLOWED_G:
        return True
    except ValueError:
        return op == 4
    return _ok_name(r)


def h01g_pre(l0, l1, o0, absolute, depth):
    shape = S("shape")
    if shape is not None and not (len(l0) == shape[0] and len(l1) == shape[1] and len(o0) == shape[2]):
        return False
    return -1 <= depth <= 4 and len(o0) >= 1 and (S("op") == 4 or depth == 0)


def h01g_shards(tier):
    out = [{"op": op, "shape": None, "_timeout": 400, "_path_timeout": 60} for op in (0, 1, 3, 4, 6, 7)]
    for op in (2, 5, 8):
        for shape in ((1, 1, 1), (63, 63, 63), (63, 62, 63), (2, 63, 1)):
            out.append({"op": op, "shape": shape, "_timeout": 300, "_path_timeout": 60})
    return out


# ---------------------------------------------------------------- H01h successor/predecessor stay inside the limits

def h01h(l0: bytes, l1: bytes, prefix_ok: bool) -> bool:
    """RFC 4471 successor / predecessor never produce an over-long label or name."""
    try:
        n = dns.name.Name([l0, l1, b"ex", b""])
    except ALLOWED_G:
        return True
    origin = dns.name.Name([b"ex", b""])
    hit("built")
    try:
        r = n.predecessor(origin, prefix_ok) if S("pred") else n.successor(origin, prefix_ok)
    except ALLOWED_G:
        return True
    return _ok_name(r)


def h01h_pre(l0, l1, prefix_ok):
    shape = S("shape")
    if shape is not None:
        return len(l0) == shape[0] and len(l1) == shape[1]
    return len(l0) >= 1 and len(l1) >= 1


def h01h_shards(tier):
    out = [{"pred": False, "shape": None, "_timeout": 400, "_path_timeout": 60}]
    for shape in ((1, 1), (2, 1), (63, 63), (63, 1), (1, 63), (62, 63)):
        out.append({"pred": True, "shape": shape, "_timeout": 300, "_path_timeout": 60})
    return out


HARNESSES = [
    Harness("H01a", h01a, h01a_pre, h01a_shards, kind="universal",
            encodes=["dns.name._escapify", "dns.name.Name.to_text", "dns.name.Name.to_styled_text", "dns.name.from_text",
                     "dns.name._validate_labels", "dns.name.Name.__init__"],
            bound="label shapes with <= 3 (quick) / 4 (thorough) octets in total, <= 3 labels, every octet over all 256 values; relative/absolute; omit_final_dot",
            stubs=["E2", "E3", "E4"], outside="names with >= 5 free octets; from_unicode/IDNA"),
    Harness("H01b", h01b, h01b_pre, h01b_shards, kind="universal",
            encodes=["dns.tokenizer.Tokenizer.get", "dns.tokenizer.Tokenizer.get_name", "dns.tokenizer.Tokenizer.as_name",
                     "dns.name.from_text", "dns.name.Name.choose_relativity"],
            bound="<= 2 (quick) / 3 (thorough) free octets in <= 2 labels; 6 token terminators; origin in {None, root, example.}; relativize",
            stubs=["E2", "E3", "E4"], outside="longer names; idna"),
    Harness("H01c", h01c, None, h01c_shards, kind="universal",
            encodes=["dns.name.Name.__init__", "dns.name._validate_labels"],
            bound="<= 4 (quick) / 5 (thorough) labels of unbounded symbolic length and content (the real 63/255 limits decide)",
            stubs=[], outside="more labels"),
    Harness("H01c2", h01c2, h01c2_pre, h01c2_shards, kind="universal",
            encodes=["dns.name.Name.to_wire", "dns.name.from_wire", "dns.name.from_wire_parser",
                     "dns.wirebase.Parser.get_bytes", "dns.wirebase.Parser.get_uint8", "dns.wirebase.Parser.restore_furthest"],
            bound="9 label-length shapes at the limits (63/64-octet labels, 254/255/256-octet names, 127/128 labels), every octet symbolic",
            stubs=[], outside="other length shapes"),
    Harness("H01d", h01d, h01d_pre, h01d_shards, kind="universal",
            encodes=["dns.name.Name.to_wire", "dns.name.from_wire_parser", "dns.name.Name.__eq__", "dns.name.Name.fullcompare"],
            bound="2 (quick) / 3 (thorough) names of two one-octet symbolic labels over a shared or private suffix, start offset 0..1 and 0x3FF6..0x4001 (every suffix position crosses 0x3FFF)",
            stubs=["E1", "E6"], outside="longer labels, more names"),
    Harness("H01e", h01e, h01e_pre, h01e_shards, kind="universal",
            encodes=["dns.name.from_wire", "dns.name.from_wire_parser", "dns.wirebase.Parser.seek", "dns.wirebase.Parser.get_bytes",
                     "dns.wirebase.Parser.restore_furthest", "dns.name._validate_labels"],
            bound="every buffer of length <= 6 (quick) / 8 (thorough), every start offset",
            stubs=[], outside="longer buffers (pointer chains longer than the buffer allows)"),
    Harness("H01f", h01f, h01f_pre, lambda tier: [{"lens": r, "_timeout": 600, "_path_timeout": 120} for r in H01F_SHAPES], kind="universal over label contents and the pointer target; finite over length shapes",
            encodes=["dns.name.from_wire", "dns.name.from_wire_parser", "dns.wirebase.Parser.seek", "dns.wirebase.Parser.get_counted_bytes"],
            bound="two symbolic labels + a pointer to any label start of an earlier name of two symbolic labels; 11 length shapes (decoded totals 7 .. 257 octets, i.e. 253, 254, 255, 256, 257 around the limit), every label octet symbolic, pointer target symbolic",
            stubs=[], outside="longer chains; pointers into the middle of a label (H01e)"),
    Harness("H01g", h01g, h01g_pre, h01g_shards, kind="universal",
            encodes=["dns.name.Name.concatenate", "dns.name.Name.derelativize", "dns.name.Name.relativize", "dns.name.Name.parent",
                     "dns.name.Name.split", "dns.name.Name.canonicalize", "dns.name.Name.__add__"],
            bound="two labels + one origin label; unbounded symbolic lengths for concatenate/derelativize/parent/split/+/constructor, 4 length shapes at the limits with symbolic octets for relativize/canonicalize",
            stubs=[], outside="names with more labels"),
    Harness("H01h", h01h, h01h_pre, h01h_shards, kind="universal",
            encodes=["dns.name.Name.successor", "dns.name.Name.predecessor", "dns.name._absolute_successor",
                     "dns.name._absolute_predecessor", "dns.name._pad_to_max_name", "dns.name._pad_to_max_label"],
            bound="successor: two labels of unbounded symbolic length below a fixed origin; predecessor: 6 length shapes (1..63) with every octet symbolic; prefix_ok symbolic",
            stubs=[], outside="deeper names"),
]
