"""C17  Resolver caches never serve stale data, honour the LRU bound, are linearizable."""

import vf.prelude  # noqa: F401
from vf.api import Harness, S, concrete, hit

import dns.name
import dns.rdataclass
import dns.rdatatype
import dns.resolver

PROPERTY = "C17"


class Clock:
    """E7: harness-owned integer clock."""
    now = 0

    @staticmethod
    def time():
        return Clock.now


dns.resolver.time = Clock

KEYS = [
    (dns.name.from_text("a.example."), dns.rdatatype.A, dns.rdataclass.IN),
    (dns.name.from_text("b.example."), dns.rdatatype.A, dns.rdataclass.IN),
    (dns.name.from_text("a.example."), dns.rdatatype.AAAA, dns.rdataclass.IN),
]


class Val:
    """Stand-in for dns.resolver.Answer: the caches only read `.expiration`."""

    def __init__(self, vid, expiration):
        self.vid = vid
        self.expiration = expiration


GET, PUT, FLUSH, FLUSHALL, RESIZE, ADVANCE = 0, 1, 2, 3, 4, 5


class Model:
    """B10: association + recency list (most recent first); no dict on symbolic values."""

    def __init__(self, lru, max_size):
        self.lru = lru
        self.max_size = max_size
        self.rec = []  # [k, val]
        self.hits = 0
        self.misses = 0

    def find(self, k):
        for i in range(len(self.rec)):
            if self.rec[i][0] == k:
                return i
        return -1

    def get(self, k, now):
        i = self.find(k)
        if i < 0:
            self.misses += 1
            return None
        e = self.rec[i]
        if e[1].expiration <= now:
            if self.lru:
                del self.rec[i]
            self.misses += 1
            return None
        if self.lru:
            del self.rec[i]
            self.rec.insert(0, e)
        self.hits += 1
        return e[1]

    def put(self, k, v):
        i = self.find(k)
        if i >= 0:
            del self.rec[i]
        if self.lru:
            while len(self.rec) >= self.max_size:
                self.rec.pop()
        self.rec.insert(0, [k, v])

    def flush(self, k):
        i = self.find(k)
        if i >= 0:
            del self.rec[i]

    def flush_all(self):
        self.rec = []

    def resize(self, n):
        self.max_size = n if n >= 1 else 1


def ring(cache):
    """Keys of the LRU ring from most to least recent, or None if the links are inconsistent."""
    out = []
    node = cache.sentinel.next
    guard = 0
    while node is not cache.sentinel:
        if node.next.prev is not node or node.prev.next is not node:
            return None
        out.append(node)
        node = node.next
        guard += 1
        if guard > 16:
            return None
    if cache.sentinel.next.prev is not cache.sentinel or cache.sentinel.prev.next is not cache.sentinel:
        return None
    return out


def consistent(cache, model, lru):
    if lru:
        nodes = ring(cache)
        if nodes is None or len(nodes) != len(cache.data) or len(nodes) != len(model.rec):
            return False
        for node, e in zip(nodes, model.rec):
            if node.key is not KEYS[e[0]] or node.value is not e[1]:
                return False
            if cache.data.get(node.key) is not node:
                return False
    else:
        # periodic cleaning may drop expired entries early; every live entry must match the model
        for k in range(len(KEYS)):
            v = cache.data.get(KEYS[k])
            i = model.find(k)
            if v is not None:
                if i < 0 or model.rec[i][1] is not v:
                    return False
            elif i >= 0 and model.rec[i][1].expiration > Clock.now:
                return False
    return cache.statistics.hits == model.hits and cache.statistics.misses == model.misses


def step(cache, model, lru, o, k, p, vid):
    """Apply one operation to cache and model; False on an observable disagreement."""
    if o == GET:
        got = cache.get(KEYS[k])
        want = model.get(k, Clock.now)
        if got is not want:
            return False
        if got is not None and got.expiration <= Clock.now:
            return False
    elif o == PUT:
        v = Val(vid, Clock.now + p)
        cache.put(KEYS[k], v)
        model.put(k, v)
        if lru and len(cache.data) > cache.max_size:
            return False
    elif o == FLUSH:
        cache.flush(KEYS[k])
        model.flush(k)
    elif o == FLUSHALL:
        cache.flush()
        model.flush_all()
    elif o == RESIZE:
        if lru:
            cache.set_max_size(p)
            model.resize(p)
    else:
        Clock.now = Clock.now + p
    return consistent(cache, model, lru)


def valid_op(o, k, p):
    return 0 <= o <= 5 and 0 <= k <= 2 and 0 <= p <= 5 and (o in (GET, PUT, FLUSH) or k == 0) and (o in (PUT, RESIZE, ADVANCE) or p == 0)


def new_cache(lru, max_size):
    Clock.now = 100
    if lru:
        return dns.resolver.LRUCache(max_size)
    return dns.resolver.Cache(cleaning_interval=3)


# ---------------------------------------------------------------- H17a sequential histories

def h17a(o1: int, k1: int, p1: int, o2: int, k2: int, p2: int, o3: int, k3: int, p3: int, o4: int, k4: int, p4: int) -> bool:
    """Every history of <= 3 (4) get/put/flush/resize/advance operations agrees with the reference cache after every step."""
    lru = S("lru")
    cache = new_cache(lru, S("max_size"))
    model = Model(lru, S("max_size"))
    ops = [(o1, k1, p1), (o2, k2, p2), (o3, k3, p3), (o4, k4, p4)][:S("n")]
    vid = 0
    for o, k, p in ops:
        vid += 1
        if not step(cache, model, lru, o, k, p, vid):
            return False
    hit("history")
    return True


def h17a_pre(o1, k1, p1, o2, k2, p2, o3, k3, p3, o4, k4, p4):
    n = S("n")
    ops = [(o1, k1, p1), (o2, k2, p2), (o3, k3, p3), (o4, k4, p4)]
    for i in range(4):
        o, k, p = ops[i]
        if i < n:
            if not valid_op(o, k, p):
                return False
        elif not (o == 0 and k == 0 and p == 0):
            return False
    if o1 != S("o1"):
        return False
    if S("o2") is not None and o2 != S("o2"):
        return False
    return True


def h17a_shards(tier):
    out = []
    for lru in (True, False):
        for ms in ((1, 2) if lru else (2,)):
            for o1 in range(6):
                if tier == "quick":
                    out.append({"lru": lru, "max_size": ms, "n": 3, "o1": o1, "o2": None, "_timeout": 600, "_path_timeout": 60})
                else:
                    for o2 in range(6):
                        out.append({"lru": lru, "max_size": ms, "n": 4, "o1": o1, "o2": o2, "_timeout": 1500, "_path_timeout": 60})
    return out


# ---------------------------------------------------------------- H17b step(s) from any 3-entry state

PERMS = [(0, 1, 2), (0, 2, 1), (1, 0, 2), (1, 2, 0), (2, 0, 1), (2, 1, 0)]


def h17b(e0: int, e1: int, e2: int, o1: int, k1: int, p1: int, o2: int, k2: int, p2: int) -> bool:
    """From every LRU state with up to 3 entries (any recency order, symbolic expirations) two symbolic operations agree with the model."""
    lru = True
    ms = S("max_size")
    cache = new_cache(lru, ms)
    model = Model(lru, ms)
    exps = [e0, e1, e2]
    order = PERMS[S("perm")][:S("fill")]
    vid = 0
    for k in order:
        vid += 1
        v = Val(vid, Clock.now + exps[k])
        cache.put(KEYS[k], v)
        model.put(k, v)
    if not consistent(cache, model, lru):
        return False
    for o, k, p in ((o1, k1, p1), (o2, k2, p2)):
        vid += 1
        if not step(cache, model, lru, o, k, p, vid):
            return False
    hit("stepped")
    return True


def h17b_pre(e0, e1, e2, o1, k1, p1, o2, k2, p2):
    return all([0 <= e <= 6 for e in (e0, e1, e2)]) and valid_op(o1, k1, p1) and valid_op(o2, k2, p2) and o1 == S("o1")


def h17b_shards(tier):
    out = []
    perms = (0, 3) if tier == "quick" else range(6)
    for ms in ((3,) if tier == "quick" else (2, 3, 4)):
        for perm in perms:
            for o1 in range(6):
                out.append({"max_size": ms, "perm": perm, "fill": 3, "o1": o1, "_timeout": 600, "_path_timeout": 60})
    return out


# ---------------------------------------------------------------- H17c linearizability (coroutine model, preemption bounded)

from vf import coro  # noqa: E402
from harness.sched import run_preemptive  # noqa: E402

dns.resolver.threading = coro.ThreadingShim  # E10 (a cooperative Lock also serves the sequential harnesses)
_CORO = {}


def setup_coro():
    if not _CORO:
        coro.install([(dns.resolver.LRUCache, "get"), (dns.resolver.LRUCache, "put"), (dns.resolver.LRUCache, "flush"),
                      (dns.resolver.Cache, "get"), (dns.resolver.Cache, "put"), (dns.resolver.Cache, "flush")], ["lock"], True,
                     plain_receivers=["data"])
        _CORO["done"] = True


def cache_thread(cache, ops, results, vals):
    for o, k in ops:
        if o == GET:
            r = yield from cache.get_gen(KEYS[k])
            results.append(("get", k, None if r is None else r.vid))
        elif o == PUT:
            yield from cache.put_gen(KEYS[k], vals.pop(0))
            results.append(("put", k, None))
        else:
            yield from cache.flush_gen(KEYS[k])
            results.append(("flush", k, None))


def sequential(lru, order, opsA, opsB):
    """Results and final state of one sequential order (order = tuple of 'A'/'B')."""
    model = Model(lru, 2)
    ia = ib = 0
    ra, rb = [], []
    va = [Val(10, 10**6), Val(11, 10**6)]
    vb = [Val(20, 10**6), Val(21, 10**6)]
    for who in order:
        if who == "A":
            o, k = opsA[ia]
            ia += 1
            res, vals = ra, va
        else:
            o, k = opsB[ib]
            ib += 1
            res, vals = rb, vb
        if o == GET:
            r = model.get(k, 100)
            res.append(("get", k, None if r is None else r.vid))
        elif o == PUT:
            model.put(k, vals.pop(0))
            res.append(("put", k, None))
        else:
            model.flush(k)
            res.append(("flush", k, None))
    state = [(e[0], e[1].vid) for e in model.rec]
    if not lru:
        state = sorted(state)
    return ra, rb, state, model.hits, model.misses


ORDERS = [("A", "A", "B", "B"), ("A", "B", "A", "B"), ("A", "B", "B", "A"), ("B", "A", "A", "B"), ("B", "A", "B", "A"), ("B", "B", "A", "A")]


def h17c(oa1: int, ka1: int, oa2: int, ka2: int, ob1: int, kb1: int, ob2: int, kb2: int, p1: int) -> bool:
    """Two threads x two operations on one cache, one preemption at any statement: results, counters and final state equal those of some sequential order."""
    lru = S("lru")
    Clock.now = 100
    cache = dns.resolver.LRUCache(2) if lru else dns.resolver.Cache(cleaning_interval=10**6)
    opsA = [(oa1, ka1), (oa2, ka2)]
    opsB = [(ob1, kb1), (ob2, kb2)]
    ra, rb = [], []
    gens = [cache_thread(cache, opsA, ra, [Val(10, 10**6), Val(11, 10**6)]), cache_thread(cache, opsB, rb, [Val(20, 10**6), Val(21, 10**6)])]
    run = run_preemptive(gens, p1, 1, 10**6, 0)
    if run.deadlock or run.overflow:
        return False
    hit("ran")
    if lru:
        nodes = ring(cache)
        if nodes is None or len(nodes) != len(cache.data):
            return False
        state = [(KEYS.index(n.key), n.value.vid) for n in nodes]
    else:
        state = sorted([(KEYS.index(k), v.vid) for k, v in cache.data.items()])
    got = (ra, rb, state, cache.statistics.hits, cache.statistics.misses)
    for order in ORDERS:
        if sequential(lru, order, opsA, opsB) == got:
            return True
    return False


def h17c_pre(oa1, ka1, oa2, ka2, ob1, kb1, ob2, kb2, p1):
    ops = [(oa1, ka1), (oa2, ka2), (ob1, kb1), (ob2, kb2)]
    if not all([o in (GET, PUT, FLUSH) and 0 <= k <= 1 for o, k in ops]):
        return False
    lo, hi = S("p1")
    return lo <= p1 < hi and oa1 == S("oa1") and ob1 == S("ob1")


def a_steps(lru):
    """Longest run of thread A alone (statement-level model), measured on the current source: a preemption point
    beyond it is the same schedule as no preemption at all."""
    import itertools

    with concrete():
        setup_coro()
        worst = 0
        for oa1, ka1, oa2, ka2 in itertools.product((GET, PUT, FLUSH), (0, 1), (GET, PUT, FLUSH), (0, 1)):
            Clock.now = 100
            cache = dns.resolver.LRUCache(2) if lru else dns.resolver.Cache(cleaning_interval=10**6)
            run = run_preemptive([cache_thread(cache, [(oa1, ka1), (oa2, ka2)], [], [Val(10, 10**6), Val(11, 10**6)])], 10**6, 0, 10**6, 0)
            worst = max(worst, run.steps)
    return worst


def h17c_shards(tier):
    out = []
    for lru in (True, False):
        top = a_steps(lru) + 2  # every statement boundary of thread A, plus "no preemption"
        for oa1 in (GET, PUT, FLUSH):
            for ob1 in (GET, PUT, FLUSH):
                rngs = [(0, top // 2), (top // 2, top)] if lru else [(0, top)]
                for r in rngs:
                    out.append({"lru": lru, "oa1": oa1, "ob1": ob1, "p1": r, "_timeout": 1500, "_path_timeout": 120})
    return out


HARNESSES = [
    Harness("H17a", h17a, h17a_pre, h17a_shards, kind="finite selection of operations/keys with universal TTLs and clock advances",
            encodes=["dns.resolver.Cache.get", "dns.resolver.Cache.put", "dns.resolver.Cache.flush", "dns.resolver.Cache._maybe_clean",
                     "dns.resolver.LRUCache.get", "dns.resolver.LRUCache.put", "dns.resolver.LRUCache.flush",
                     "dns.resolver.LRUCache.set_max_size", "dns.resolver.LRUCacheNode.link_after", "dns.resolver.LRUCacheNode.unlink"],
            bound="all histories of 3 (thorough 4) operations over {get,put,flush k,flush all,set_max_size,advance clock} x 3 keys, TTL / clock delta / new size symbolic in 0..5; Cache(cleaning_interval=3) and LRUCache(max_size 1,2); state compared after every step (ring order = recency order, ring<->dict links, counters)",
            stubs=["E7"], outside="> 3 keys, longer histories (H17b extends to any 3-entry state + 2), float clocks"),
    Harness("H17b", h17b, h17b_pre, h17b_shards, kind="finite selection with universal expirations",
            encodes=["dns.resolver.LRUCache.get", "dns.resolver.LRUCache.put", "dns.resolver.LRUCache.flush", "dns.resolver.LRUCache.set_max_size"],
            bound="LRU states of 3 entries in 2 (6) recency orders with symbolic expirations 0..6, max_size 3 (2,3,4), then two symbolic operations",
            stubs=["E7"], outside="> 3 keys"),
    Harness("H17c", h17c, h17c_pre, h17c_shards, kind="finite: preemption-bounded schedules of the statement-level coroutine model",
            encodes=["dns.resolver.LRUCache.get", "dns.resolver.LRUCache.put", "dns.resolver.LRUCache.flush", "dns.resolver.Cache.get",
                     "dns.resolver.Cache.put", "dns.resolver.Cache.flush"],
            bound="2 threads x 2 operations (get / put / flush over 2 keys, first operation of each thread per shard), a preemption point after every statement of the six methods (regenerated from source), 1 preemption at any statement boundary of the first thread (its longest run is measured on the current source: 21 steps for the LRU cache, 12 for the plain one; later points equal no preemption); observed results, counters and final state must equal one of the 6 sequential orders",
            stubs=["E10", "E7"], outside="> 2 threads, > 1 preemption, set_max_size (takes no lock upstream), real threading.Lock", setup=setup_coro),
]
