"""Scheduler for the coroutine models (vf.coro): choices come from symbolic integers."""

from vf.coro import Event, Lock


def is_blocked(s):
    if isinstance(s, tuple) and len(s) == 2 and s[0] == "blocked":
        o = s[1]
        if isinstance(o, Lock):
            return o.held
        if isinstance(o, Event):
            return not o.flag
    return False


class Run:
    """Outcome of one schedule."""

    def __init__(self, n):
        self.n = n
        self.deadlock = False
        self.steps = 0
        self.overflow = False
        self.leftover = 0
        self.blocked_on_event = [0] * n
        self.trace = []
        self.span = 1  # product of the numbers of choices met: the schedule integer must range over at least this much


def run_all(gens, code, max_steps=400, on_step=None, lead=None):
    """Exhaustive-choice scheduler: at every step the next thread is digit `code % k` of the
    symbolic integer, k = number of runnable threads.  lead = (thread, state): that thread alone runs
    until it has yielded `state` (a fixed prefix that prunes symmetric schedules)."""
    n = len(gens)
    state = [None] * n
    done = [False] * n
    r = Run(n)
    leading = lead is not None
    while not all(done):
        runnable = [i for i in range(n) if not done[i] and not is_blocked(state[i])]
        if not runnable:
            r.deadlock = True
            return r
        k = len(runnable)
        if leading and state[lead[0]] == lead[1]:
            leading = False
        if leading and lead[0] in runnable:
            i = lead[0]
        elif k == 1:
            i = runnable[0]
        else:
            d = code % k
            code = code // k
            i = runnable[d]
            r.span = r.span * k
        try:
            state[i] = next(gens[i])
            if isinstance(state[i], tuple) and state[i][0] == "blocked" and isinstance(state[i][1], Event):
                r.blocked_on_event[i] += 1
        except StopIteration:
            done[i] = True
        r.trace.append(i)
        r.steps += 1
        if on_step is not None:
            on_step(i, state[i])
        if r.steps > max_steps:
            r.overflow = True
            return r
    r.leftover = code
    return r


def run_preemptive(gens, p1, t1, p2, t2, max_steps=2000, on_step=None):
    """Preemption-bounded scheduler (CHESS style): the current thread runs until it blocks or
    ends; at step p1 (and p1+1+p2) control is handed to thread t1 (t2) if it is runnable."""
    n = len(gens)
    state = [None] * n
    done = [False] * n
    r = Run(n)
    cur = 0
    points = [(p1, t1), (p1 + 1 + p2, t2)]
    while not all(done):
        runnable = [i for i in range(n) if not done[i] and not is_blocked(state[i])]
        if not runnable:
            r.deadlock = True
            return r
        for pt, th in points:
            if r.steps == pt and th in runnable:
                cur = th
        if cur not in runnable:
            cur = runnable[0]
        try:
            state[cur] = next(gens[cur])
            if isinstance(state[cur], tuple) and state[cur][0] == "blocked" and isinstance(state[cur][1], Event):
                r.blocked_on_event[cur] += 1
        except StopIteration:
            done[cur] = True
        r.trace.append(cur)
        r.steps += 1
        if on_step is not None:
            on_step(cur, state[cur])
        if r.steps > max_steps:
            r.overflow = True
            return r
    return r
