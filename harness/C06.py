"""C06  Name comparison is the DNSSEC canonical order, coherent with equality and hash."""

import vf.prelude  # noqa: F401
from vf.api import Harness, S, hit
from vf.prelude import REAL_NAME_HASH

import dns.name
import dns.namedict

from harness.oracles import (COMMONANCESTOR, EQUAL, NONE, SUBDOMAIN, SUPERDOMAIN, fold, ref_fullcompare, sign)

PROPERTY = "C06"
REL = {dns.name.NameRelation.NONE: NONE, dns.name.NameRelation.SUPERDOMAIN: SUPERDOMAIN,
       dns.name.NameRelation.SUBDOMAIN: SUBDOMAIN, dns.name.NameRelation.EQUAL: EQUAL,
       dns.name.NameRelation.COMMONANCESTOR: COMMONANCESTOR}


def _labels(data, shape, absolute):
    out = []
    p = 0
    for ln in shape:
        out.append(data[p:p + ln])
        p += ln
    if absolute:
        out.append(b"")
    return out


# ---------------------------------------------------------------- H06a differential order

def h06a(da: bytes, db: bytes, aabs: bool, babs: bool) -> bool:
    """fullcompare = independent RFC 4034 6.1 comparator (sign, relation, common labels); rich comparisons agree."""
    sa, sb = S("a"), S("b")
    la, lb = _labels(da, sa, aabs), _labels(db, sb, babs)
    a, b = dns.name.Name(la), dns.name.Name(lb)
    rel, order, nl = a.fullcompare(b)
    rrel, rorder, rnl = ref_fullcompare(la, lb)
    hit("compared")
    if REL[rel] != rrel or sign(order) != rorder or nl != rnl:
        return False
    if (a == b) != (rorder == 0) or (a != b) != (rorder != 0):
        return False
    if (a < b) != (rorder < 0) or (a <= b) != (rorder <= 0) or (a > b) != (rorder > 0) or (a >= b) != (rorder >= 0):
        return False
    if a.is_subdomain(b) != (rrel in (SUBDOMAIN, EQUAL)) or a.is_superdomain(b) != (rrel in (SUPERDOMAIN, EQUAL)):
        return False
    if rorder == 0 and REAL_NAME_HASH(a) != REAL_NAME_HASH(b):
        return False
    return True


def h06a_pre(da, db, aabs, babs):
    return len(da) == sum(S("a")) and len(db) == sum(S("b"))


def h06a_shards(tier):
    shapes = [(), (1,), (2,), (1, 1)]
    if tier == "thorough":
        shapes += [(2, 1), (1, 2), (1, 1, 1), (2, 2)]
    out = []
    for i, a in enumerate(shapes):
        for b in shapes:
            out.append({"a": a, "b": b, "_timeout": 300 if sum(a) + sum(b) < 7 else 3000, "_path_timeout": 60})
    return out


# ---------------------------------------------------------------- H06b laws on triples

def h06b(da: bytes, db: bytes, dc: bytes, aabs: bool, babs: bool, cabs: bool) -> bool:
    """Total, antisymmetric, transitive; equal iff labels equal under A-Z folding only; equal => same hash."""
    sa, sb, sc = S("a"), S("b"), S("c")
    la, lb, lc = _labels(da, sa, aabs), _labels(db, sb, babs), _labels(dc, sc, cabs)
    a, b, c = dns.name.Name(la), dns.name.Name(lb), dns.name.Name(lc)
    ab, ba, bc, ac = a <= b, b <= a, b <= c, a <= c
    hit("compared")
    if not (ab or ba):
        return False  # totality
    eq = len(la) == len(lb) and all([fold(x) == fold(y) for x, y in zip(la, lb)])
    if (ab and ba) != eq or (a == b) != eq:
        return False  # antisymmetry + equality characterisation
    if ab and bc and not ac:
        return False  # transitivity
    if eq and REAL_NAME_HASH(a) != REAL_NAME_HASH(b):
        return False
    if (a < b) != (ab and not ba):
        return False
    return True


def h06b_pre(da, db, dc, aabs, babs, cabs):
    return len(da) == sum(S("a")) and len(db) == sum(S("b")) and len(dc) == sum(S("c"))


def h06b_shards(tier):
    shapes = [(1,), (2,)] if tier == "quick" else [(1,), (2,), (1, 1)]
    out = []
    for a in shapes:
        for b in shapes:
            for c in shapes:
                out.append({"a": a, "b": b, "c": c, "_timeout": 400, "_path_timeout": 60})
    return out


# ---------------------------------------------------------------- H06c structure

def h06c(da: bytes, db: bytes, aabs: bool, depth: int) -> bool:
    """parent/split/relativize/derelativize/NameDict agree with the relation reported by fullcompare."""
    sa, sb = S("a"), S("b")
    la = _labels(da, sa, aabs)
    lo = _labels(db, sb, True)
    n, o = dns.name.Name(la), dns.name.Name(lo)
    hit("built")
    # relativize then derelativize restores the name byte-for-byte when n is a subdomain of o
    if n.is_subdomain(o):
        r = n.relativize(o)
        if r.is_absolute() and len(o.labels) > 0:
            return False
        back = r.derelativize(o)
        if back.labels != n.labels[:len(r.labels)] + o.labels:
            return False
        if dns.name.Name(list(back.labels)) != n:
            return False
        if list(r.labels) != la[:len(la) - len(lo)]:
            return False
    else:
        if n.relativize(o).labels != n.labels:
            return False
    if not aabs:
        d = n.derelativize(o)
        if list(d.labels) != la + lo:
            return False
        if not d.is_subdomain(o):
            return False
    # parent is the immediate superdomain
    if len(la) > 0 and la != [b""]:
        p = n.parent()
        if list(p.labels) != la[1:]:
            return False
        rel, order, nl = n.fullcompare(p)
        if rel != dns.name.NameRelation.SUBDOMAIN or nl != len(la) - 1:
            return False
    # split
    if 0 <= depth <= len(la):
        pre, suf = n.split(depth)
        if list(pre.labels) + list(suf.labels) != la or len(suf.labels) != depth:
            return False
    # NameDict deepest match: among o and root, the deepest stored suffix of n
    if aabs:
        nd = dns.namedict.NameDict()
        nd[dns.name.root] = 0
        nd[o] = 1
        k, v = nd.get_deepest_match(n)
        want = 1 if n.is_subdomain(o) and len(o.labels) > 1 else 0
        if len(o.labels) == 1:
            want = v  # o is the root itself: either value stored last wins
        if v != want:
            return False
    return True


def h06c_pre(da, db, aabs, depth):
    return len(da) == sum(S("a")) and len(db) == sum(S("b")) and -1 <= depth <= 4


def h06c_shards(tier):
    shapes_n = [(), (1,), (1, 1), (2, 1)] + ([(1, 1, 1), (2, 2)] if tier == "thorough" else [])
    shapes_o = [(), (1,), (2,)] + ([(1, 1)] if tier == "thorough" else [])
    return [{"a": a, "b": b, "_timeout": 300, "_path_timeout": 60} for a in shapes_n for b in shapes_o]


# ---------------------------------------------------------------- H06d RFC 4471 successor / predecessor

ORIGIN = dns.name.Name([b"ex", b""])


def h06d(l0: bytes, l1: bytes, prefix_ok: bool, relative: bool) -> bool:
    """successor sorts strictly after the name (or wraps to the origin); predecessor strictly before."""
    k = S("nlabels")
    labels = [l0, l1][:k]
    try:
        rel = dns.name.Name(labels)
        n = dns.name.Name(labels + list(ORIGIN.labels))
    except (dns.name.LabelTooLong, dns.name.NameTooLong, dns.name.EmptyLabel):
        return True
    x = rel if relative else n
    hit("built")
    if S("pred"):
        p = x.predecessor(ORIGIN, prefix_ok)
        if p.is_absolute() != x.is_absolute():
            return False
        pa = p.derelativize(ORIGIN)
        if not pa.is_subdomain(ORIGIN):
            return False
        if k == 0:
            return pa >= n  # predecessor of the origin wraps to the last name of the zone
        return pa < n
    s = x.successor(ORIGIN, prefix_ok)
    if s.is_absolute() != x.is_absolute():
        return False
    sa = s.derelativize(ORIGIN)
    if not sa.is_subdomain(ORIGIN):
        return False
    return sa == ORIGIN or sa > n


def h06d_pre(l0, l1, prefix_ok, relative):
    shape = S("shape")
    if shape is not None:
        return all([len(x) == s for x, s in zip((l0, l1), shape)])
    return True


def h06d_shards(tier):
    out = [{"pred": False, "nlabels": k, "shape": None, "_timeout": 900, "_path_timeout": 60} for k in (0, 1)]
    for shape in [(1, 1), (1, 63), (63, 1), (62, 1)] + ([(2, 2), (63, 63), (62, 63), (63, 62)] if tier == "thorough" else []):
        out.append({"pred": False, "nlabels": 2, "shape": shape, "_timeout": 900 if tier == "quick" else 3600, "_path_timeout": 60})
    out.append({"pred": True, "nlabels": 0, "shape": None, "_timeout": 100, "_path_timeout": 60})
    shapes = [(1,), (2,), (63,), (62,), (1, 1), (63, 63), (1, 63), (63, 1)]
    if tier == "thorough":
        shapes += [(3,), (2, 2), (62, 63), (63, 62), (31, 31)]
    for shape in shapes:
        out.append({"pred": True, "nlabels": len(shape), "shape": shape, "_timeout": 400, "_path_timeout": 60})
    return out


HARNESSES = [
    Harness("H06a", h06a, h06a_pre, h06a_shards, kind="universal",
            encodes=["dns.name.Name.fullcompare", "dns.name.Name.__eq__", "dns.name.Name.__lt__", "dns.name.Name.__le__",
                     "dns.name.Name.__hash__", "dns.name.Name.is_subdomain", "dns.name.Name.is_superdomain"],
            bound="pairs of names over label shapes (), (1), (2), (1,1) [thorough: + (2,1),(1,2),(1,1,1),(2,2)], every octet over all 256 values, relativity symbolic",
            stubs=[], outside="labels with > 2 free octets"),
    Harness("H06b", h06b, h06b_pre, h06b_shards, kind="universal",
            encodes=["dns.name.Name.fullcompare", "dns.name.Name.__eq__", "dns.name.Name.__le__", "dns.name.Name.__lt__", "dns.name.Name.__hash__"],
            bound="triples of names, each one label of 1-2 octets (thorough: also two one-octet labels), every octet symbolic, relativity symbolic",
            stubs=[], outside="longer labels in triples"),
    Harness("H06c", h06c, h06c_pre, h06c_shards, kind="universal",
            encodes=["dns.name.Name.relativize", "dns.name.Name.derelativize", "dns.name.Name.parent", "dns.name.Name.split",
                     "dns.namedict.NameDict.get_deepest_match", "dns.namedict.NameDict.__setitem__"],
            bound="name shapes up to (2,1) [thorough (1,1,1),(2,2)] x absolute origin shapes up to (2) [thorough (1,1)]",
            stubs=["E6"], outside="deeper names"),
    Harness("H06d", h06d, h06d_pre, h06d_shards, kind="universal",
            encodes=["dns.name.Name.successor", "dns.name.Name.predecessor", "dns.name._absolute_successor",
                     "dns.name._absolute_predecessor", "dns.name._pad_to_max_name", "dns.name._pad_to_max_label",
                     "dns.name._handle_relativity_and_call"],
            bound="successor: one label of unbounded symbolic length (1..63) and content below ex., two labels over 4 (8) length shapes incl. 63-octet labels; predecessor: 8 (13) length shapes; every octet symbolic",
            stubs=[], outside="names with > 2 labels below the origin"),
]
