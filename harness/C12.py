"""C12  Versioned-zone writers are serialized, FIFO and deadlock-free in every schedule."""

import vf.prelude  # noqa: F401
from vf.api import Harness, S, concrete, hit
from vf import coro

import dns.name
import dns.rdataset
import dns.rdatatype
import dns.transaction
import dns.versioned
import dns.zone

from harness.sched import run_all, run_preemptive

PROPERTY = "C12"

dns.versioned.threading = coro.ThreadingShim  # E10

TARGETS = [
    (dns.versioned.Zone, "writer"), (dns.versioned.Zone, "reader"), (dns.versioned.Zone, "_end_write"),
    (dns.versioned.Zone, "_end_read"), (dns.versioned.Zone, "_commit_version"),
    (dns.zone.Transaction, "_end_transaction"),
    (dns.transaction.Transaction, "_end"), (dns.transaction.Transaction, "commit"), (dns.transaction.Transaction, "rollback"),
]
SHARED = ["_write_txn", "_write_event", "_write_waiters", "_versions", "_readers"]
_installed = {}


def setup():
    fine = bool(S("fine"))
    if _installed.get("mode") != fine:
        coro.install(TARGETS, ["_version_lock"], fine)
        _installed["mode"] = fine


ZTXT = "@ 300 IN SOA ns hostmaster 1 2 3 4 5\n@ 300 IN NS ns\nns 300 IN A 10.0.0.1\nshared 300 IN TXT \"init\"\n"
SHARED_NAME = dns.name.from_text("shared", None)
OWN = [dns.name.from_text("t%d" % i, None) for i in range(4)]
VAL = [dns.rdataset.from_text("IN", "TXT", 300, '"w%d"' % i) for i in range(4)]
INIT = dns.rdataset.from_text("IN", "TXT", 300, '"init"')


class Log:
    def __init__(self):
        self.events = []
        self.bad = []

    def add(self, *e):
        self.events.append(e)


def writer_thread(zone, i, commit, log):
    log.add("start", i)
    txn = yield from zone.writer_gen()
    log.add("admit", i)
    if zone._write_txn is not txn:
        log.bad.append("writer %d admitted but is not the zone's write transaction" % i)
    seen = txn.get(SHARED_NAME, dns.rdatatype.TXT)
    log.add("saw", i, seen[0].to_text() if seen is not None else None)
    txn.replace(SHARED_NAME, VAL[i])
    yield "work"
    if zone._write_txn is not txn:
        log.bad.append("another write transaction opened while writer %d was open" % i)
    txn.add(OWN[i], VAL[i])
    log.add("end", i, commit)
    if commit:
        yield from txn.commit_gen()
    else:
        yield from txn.rollback_gen()
    log.add("done", i)


def reader_thread(zone, log):
    log.add("rstart")
    txn = yield from zone.reader_gen()
    a = txn.get(SHARED_NAME, dns.rdatatype.TXT)
    names_a = sorted([n.to_text() for n in txn.iterate_names()])
    yield "read"
    b = txn.get(SHARED_NAME, dns.rdatatype.TXT)
    names_b = sorted([n.to_text() for n in txn.iterate_names()])
    if a != b or names_a != names_b:
        log.bad.append("reader snapshot changed while open")
    log.add("rsaw", a[0].to_text(), tuple(names_a))
    yield from txn.rollback_gen()
    log.add("rdone")


def make_zone():
    with concrete():
        zone = dns.zone.from_text(ZTXT, "example.", zone_factory=dns.versioned.Zone)
    return zone


def verdict(zone, log, run, commits, nwriters, with_reader):
    """The C12 obligations on one completed schedule."""
    if run.deadlock or run.overflow or log.bad:
        return False
    ev = log.events
    # Mutual exclusion is asserted on the zone state itself (writer_thread checks that it still is the zone's
    # write transaction at admission and while working; _end_write_unlocked asserts it when the write ends):
    # the end of a write is the critical section that clears _write_txn, not the return of commit().
    admits = [e[1] for e in ev if e[0] == "admit"]
    if sorted(admits) != list(range(nwriters)):
        return False  # every writer is eventually admitted
    # FIFO: admission order = order of first critical section in writer()
    if admits != log.first_cs:
        return False
    # each writer saw the value left by the last committed writer admitted before it
    last = '"init"'
    for i in admits:
        saw = [e[2] for e in ev if e[0] == "saw" and e[1] == i][0]
        if saw != last:
            return False
        if commits[i]:
            last = '"w%d"' % i
    # final zone = serial application in admission order
    final = zone.get_rdataset(SHARED_NAME, dns.rdatatype.TXT)
    if final is None or final[0].to_text() != last:
        return False
    for i in range(nwriters):
        present = zone.get_rdataset(OWN[i], dns.rdatatype.TXT) is not None
        if present != commits[i]:
            return False
    if zone._write_txn is not None or len(zone._write_waiters) != 0 or zone._version_lock.held:
        return False
    if with_reader:
        # the reader never waits for a write transaction to end, and saw a committed state
        if run.blocked_on_event[nwriters] != 0:
            return False
        rs = [e for e in ev if e[0] == "rsaw"]
        if len(rs) != 1:
            return False
        val, names = rs[0][1], rs[0][2]
        committed_states = [('"init"', ())]
        cur_val, cur_names = '"init"', []
        for i in admits:
            if commits[i]:
                cur_val = '"w%d"' % i
                cur_names = cur_names + ["t%d" % i]
                committed_states.append((cur_val, tuple(sorted(cur_names))))
        own = tuple(sorted([n for n in names if n.startswith("t")]))
        if (val, own) not in committed_states:
            return False
    return True


def instrument_first_cs(zone, log, nthreads):
    """Record the order in which threads run their first critical section of writer()."""
    log.first_cs = []
    lock = zone._version_lock

    def on_step_factory(last_state):
        def on_step(i, st):
            pass
        return on_step
    return None


# ---------------------------------------------------------------- H12a coarse: every schedule

def _run(nw, with_reader, commits, scheduler):
    zone = make_zone()
    log = Log()
    log.first_cs = []
    gens = [writer_thread(zone, i, commits[i], log) for i in range(nw)]
    if with_reader:
        gens.append(reader_thread(zone, log))
    prev = [None] * len(gens)
    started_writer_cs = [False] * nw

    def on_step(i, st):
        # a writer that was about to take the lock (or was blocked on it) and has now moved on ran a critical section
        if i < nw and not started_writer_cs[i]:
            p = prev[i]
            if p == "lock" or (isinstance(p, tuple) and p[0] == "blocked" and p[1] is zone._version_lock):
                if not (isinstance(st, tuple) and st[0] == "blocked" and st[1] is zone._version_lock):
                    started_writer_cs[i] = True
                    log.first_cs.append(i)
        prev[i] = st

    run = scheduler(gens, on_step)
    return zone, log, run


def h12a(code: int, c0: bool, c1: bool, c2: bool) -> bool:
    """Coarse model (atomic critical sections), every interleaving: mutual exclusion, FIFO admission, no deadlock / lost wake-up, serial outcome, readers never wait."""
    nw, with_reader = S("writers"), S("reader")
    commits = [c0, c1, c2][:nw]
    lead = (0, "work") if S("lead") else None
    zone, log, run = _run(nw, with_reader, commits, lambda gens, on_step: run_all(gens, code, on_step=on_step, lead=lead))
    if run.leftover != 0:
        return True  # the same schedule is reached with the leftover digits zero
    if run.span > S("total"):
        raise AssertionError("schedule integer too narrow: a schedule with %d combinations of choices exists" % run.span)
    hit("schedule")
    return verdict(zone, log, run, commits, nw, with_reader)


def h12a_pre(code, c0, c1, c2):
    nw = S("writers")
    if nw < 3 and c2:
        return False
    if S("lead") and not (c0 and c1 and c2):
        return False
    lo, hi = S("codes")
    return lo <= code < hi


def h12a_shards(tier):
    # the schedule integer has one digit per scheduling decision; unused high digits must be zero
    out = [{"fine": False, "writers": 2, "reader": False, "codes": (0, 2**12), "total": 2**12, "_timeout": 900, "_path_timeout": 120}]
    # three writers, the first one admitted before the others start (prunes the symmetric prefixes), all committing
    top3 = 3**11
    out.append({"fine": False, "writers": 3, "reader": False, "lead": True, "codes": (0, top3), "total": top3, "_timeout": 1500, "_path_timeout": 120})
    if tier == "thorough":
        top = 3**14
        parts = 27
        step = top // parts
        for k in range(parts):
            out.append({"fine": False, "writers": 3, "reader": False, "total": top, "codes": (k * step, (k + 1) * step if k < parts - 1 else top),
                        "_timeout": 3600, "_path_timeout": 120})
    return out


# ---------------------------------------------------------------- H12b fine-grained, preemption bounded

def h12b(p1: int, t1: int, p2: int, t2: int, c0: bool, c1: bool) -> bool:
    """Fine model (a preemption point after every statement of the admission / commit code), <= 1 (2) preemptions at symbolic points."""
    nw, with_reader = 2, S("reader")
    commits = [c0, c1]
    zone, log, run = _run(nw, with_reader, commits,
                          lambda gens, on_step: run_preemptive(gens, p1, t1, p2, t2, on_step=on_step))
    hit("schedule")
    return verdict(zone, log, run, commits, nw, with_reader)


def h12b_pre(p1, t1, p2, t2, c0, c1):
    n = 3 if S("reader") else 2
    lo, hi = S("p1")
    if not (lo <= p1 < hi and 0 <= t1 < n):
        return False
    if S("preemptions") == 1:
        return p2 == 0 and t2 == 0 and p1 + 1 > 10**6 or (p2 == 10**6 and t2 == 0)
    if S("fixc") and not (c0 and c1):
        return False
    return 0 <= p2 <= S("p2max") and 0 <= t2 < n


def h12b_shards(tier):
    out = []
    for rd in (False, True):
        for lo in range(0, 64, 8):
            out.append({"fine": True, "reader": rd, "preemptions": 1, "p1": (lo, lo + 8), "_timeout": 1200, "_path_timeout": 120})
    # two preemptions (A is preempted while it holds the write, B is preempted again between two of its own
    # statements): the lost wake-up shape.  Quick: both writers commit, second preemption within 16 steps of the first.
    if tier == "quick":
        for lo in range(0, 40, 4):
            out.append({"fine": True, "reader": False, "preemptions": 2, "p1": (lo, lo + 4), "p2max": 16, "fixc": True, "_timeout": 1200, "_path_timeout": 120})
    if tier == "thorough":
        for lo in range(0, 64, 2):
            out.append({"fine": True, "reader": False, "preemptions": 2, "p1": (lo, lo + 2), "p2max": 60, "_timeout": 3000, "_path_timeout": 120})
    return out


# ---------------------------------------------------------------- H12c static side condition of the coarse reduction

def h12c(dummy: bool) -> bool:
    """Every access to the shared writer/reader state lies lexically under the version lock (or in an *_unlocked helper)."""
    with concrete():
        bad = coro.shared_state_under_lock(dns.versioned.Zone,
                                           ["reader", "writer", "_end_read", "_end_write", "_commit_version", "set_pruning_policy"],
                                           "_version_lock", SHARED)
    hit("checked")
    # Allowed: the admitted writer reads back its own transaction after the admission loop
    # (`self._write_txn._setup_version()` / `return self._write_txn`): no other thread can change the field
    # between admission and the end of that write.  Anything else outside the lock voids the coarse reduction.
    other = [b for b in bad if not b.startswith("Zone.writer: _write_txn")]
    return len(other) == 0 and len(bad) <= 2


HARNESSES = [
    Harness("H12a", h12a, h12a_pre, h12a_shards, kind="finite: exhaustive over schedules of the coarse model",
            encodes=["dns.versioned.Zone.writer", "dns.versioned.Zone.reader", "dns.versioned.Zone._end_write", "dns.versioned.Zone._end_read",
                     "dns.versioned.Zone._commit_version", "dns.versioned.Zone._maybe_wakeup_one_waiter_unlocked",
                     "dns.versioned.Zone._commit_version_unlocked", "dns.versioned.Zone._end_write_unlocked",
                     "dns.zone.Transaction._end_transaction", "dns.transaction.Transaction._end"],
            bound="2 writers (commit/rollback symbolic), every interleaving at lock / event granularity; 3 committing writers with the first admitted before the others start, every interleaving of the rest (schedule = one symbolic integer, one digit per scheduling decision); thorough: 3 writers; the reader is covered by the preemption-bounded H12b",
            stubs=["E10", "E6"], outside="> 3 writers; pre-emption inside a critical section (H12b); CPython thread internals", setup=setup),
    Harness("H12b", h12b, h12b_pre, h12b_shards, kind="finite: preemption-bounded schedules of the fine model",
            encodes=["dns.versioned.Zone.writer", "dns.versioned.Zone._end_write", "dns.versioned.Zone._commit_version",
                     "dns.zone.Transaction._end_transaction", "dns.transaction.Transaction._end", "dns.transaction.Transaction.commit",
                     "dns.transaction.Transaction.rollback"],
            bound="2 writers (+ 1 reader), a preemption point after every statement of the rewritten methods, 1 preemption at any of the first 64 steps to any thread, plus 2 preemptions (first within the first 40 steps, second <= 16 steps later, both writers committing); thorough: 2 preemptions anywhere in the first 64 + 60 steps, commit / rollback symbolic",
            stubs=["E10", "E6"], outside="> 2 preemptions", setup=setup),
    Harness("H12c", h12c, None, lambda tier: [{"fine": False, "_timeout": 60}], kind="static side condition (AST)",
            encodes=["dns.versioned.Zone.writer", "dns.versioned.Zone.reader"], bound="AST of 6 methods", stubs=[], outside="", setup=setup),
]
