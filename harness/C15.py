"""C15  Key-free DNSSEC computations equal an independent RFC 4034/5155/6840 reference."""

import vf.prelude  # noqa: F401
from vf.api import Harness, S, concrete, hit

import dns.dnssec
import dns.dnssectypes
import dns.name
import dns.rdata
import dns.rdataclass
import dns.rdataset
import dns.rdatatype
import dns.rdtypes.ANY.DNSKEY
import dns.rrset
import dns.zone
import dns.zonetypes

from harness.oracles import fold
from harness.types_common import EX, IN, implemented, specimen

PROPERTY = "C15"
# RFC 4034 6.2 (as updated by RFC 6840 5.1: NSEC removed): types whose embedded names are lower-cased
LOWERCASED = {"NS", "MD", "MF", "CNAME", "SOA", "MB", "MG", "MR", "PTR", "MINFO", "MX", "RP", "AFSDB", "RT", "SIG", "PX", "NXT", "NAPTR", "KX",
              "SRV", "DNAME", "A6", "RRSIG"}


def canon_name(labels):
    out = b""
    for lab in labels:
        out += bytes([len(lab)]) + fold(lab)
    return out


def plain_name(labels):
    out = b""
    for lab in labels:
        out += bytes([len(lab)]) + lab
    return out


# ---------------------------------------------------------------- E9 ideal hash

HSTREAMS = []


class RecHash:
    size = 20

    def __init__(self, data=b""):
        self.stream = data

    def update(self, data):
        self.stream = self.stream + data

    def digest(self):
        HSTREAMS.append(self.stream)
        n = len(HSTREAMS)
        return bytes([n]) * self.size


class RecHash32(RecHash):
    size = 32


class HashlibShim:
    sha1 = RecHash
    sha256 = RecHash32
    sha384 = RecHash
    sha512 = RecHash


# ---------------------------------------------------------------- H15n names

def h15n(l0: int, l1: int, o0: int, o1: int, relative: bool) -> bool:
    """Name.to_digestable(origin): fully expanded, uncompressed, every label (the origin's too) lower-cased."""
    origin = dns.name.Name([bytes([o0, o1]), b"Org", b""])
    rel_labels = [bytes([l0]), bytes([l1])]
    n = dns.name.Name(rel_labels) if relative else dns.name.Name(rel_labels + list(origin.labels))
    got = n.to_digestable(origin)
    hit("digested")
    want = canon_name(rel_labels + list(origin.labels))
    return got == want


def h15n_pre(l0, l1, o0, o1, relative):
    return all([0 <= x <= 255 for x in (l0, l1, o0, o1)])


# ---------------------------------------------------------------- H15a canonical RDATA per name-bearing type

def name_fields(rd):
    out = []
    for cls in type(rd).__mro__:
        for s in getattr(cls, "__slots__", []):
            if isinstance(getattr(rd, s, None), dns.name.Name):
                out.append(s)
    return out


def h15a(b0: int, b1: int, relative: bool) -> bool:
    """Rdata.to_digestable: embedded names expanded and uncompressed; lower-cased iff the type is in RFC 4034 6.2 minus NSEC; nothing else changed."""
    c, t, field = S("c"), S("t"), S("field")
    with concrete():
        rd0 = specimen(c, t, S("name"))
    labels = [bytes([b0]), bytes([b1])]
    nm = dns.name.Name(labels) if relative else dns.name.Name(labels + list(EX.labels))
    rd = rd0.replace(**{field: nm})
    got = rd.to_digestable(EX)
    hit("digested")
    base = S("name").replace("CH-", "")
    want_labels = [fold(x) for x in labels] if (base in LOWERCASED and not S("name").startswith("CH-")) else labels
    expected = rd0.replace(**{field: dns.name.Name(want_labels + list(EX.labels))}).to_wire()
    return got == expected


def h15a_pre(b0, b1, relative):
    return 0 <= b0 <= 255 and 0 <= b1 <= 255


def h15a_shards(tier):
    out = []
    with concrete():
        for c, t, name in implemented():
            try:
                rd0 = specimen(c, t, name)
            except Exception:
                rd0 = None
            if rd0 is None:
                continue
            for f in name_fields(rd0):
                if name in ("TSIG", "TKEY") and f == "algorithm":
                    continue  # meta records, never part of signed data; algorithm names are not zone-relative
                out.append({"c": c, "t": t, "name": name, "field": f, "_timeout": 300, "_path_timeout": 60})
    return out


# ---------------------------------------------------------------- H15c RRSIG signing input

def h15c(o0: int, o1: int, s1: bytes, s2: bytes, labels: int, ttl: int, keytag: int, wild: bool, rel_signer: bool) -> bool:
    """_make_rrsig_signature_data = RFC 4034 3.1.8.1: RRSIG RDATA prefix, canonical signer, owner reduced to *. + rightmost `labels` labels, records in canonical order."""
    zone = dns.name.Name([b"ExAmple", b""])
    owner_labels = ([b"*"] if wild else [bytes([o0])]) + [bytes([o1])] + list(zone.labels)
    owner = dns.name.Name(owner_labels)
    r1 = dns.rdata.from_wire(IN, dns.rdatatype.TXT, bytes([len(s1)]) + s1, 0, len(s1) + 1)
    r2 = dns.rdata.from_wire(IN, dns.rdatatype.TXT, bytes([len(s2)]) + s2, 0, len(s2) + 1)
    rrset = dns.rrset.RRset(owner, IN, dns.rdatatype.TXT)
    rrset.add(r1, 300)
    rrset.add(r2, 300)
    with concrete():
        tmpl = dns.rdata.from_text(IN, dns.rdatatype.RRSIG, "TXT 8 2 3600 20300101000000 20200101000000 1 ExAmple. AQID")
    signer = dns.name.empty if rel_signer else zone
    rrsig = tmpl.replace(labels=labels, original_ttl=ttl, key_tag=keytag, signer=signer)
    nlabels = len(owner_labels) - 1
    try:
        got = dns.dnssec._make_rrsig_signature_data(rrset, rrsig, zone)
    except dns.dnssec.ValidationFailure:
        # exactly the two documented label-count cases
        return (wild and labels != nlabels - 1) or labels > nlabels
    if (wild and labels != nlabels - 1) or labels > nlabels:
        return False
    hit("stream")
    # reference
    prefix = (dns.rdatatype.TXT.to_bytes(2, "big") + bytes([8, labels]) + ttl.to_bytes(4, "big")
              + tmpl.expiration.to_bytes(4, "big") + tmpl.inception.to_bytes(4, "big") + keytag.to_bytes(2, "big"))
    want = prefix + canon_name(zone.labels)
    if labels < nlabels:
        oname = [b"*"] + owner_labels[len(owner_labels) - 1 - labels:]
    else:
        oname = owner_labels
    oname_c = canon_name(oname)
    recs = [bytes([len(s1)]) + s1, bytes([len(s2)]) + s2]
    if recs[0] == recs[1]:
        recs = recs[:1]
    elif recs[1] < recs[0]:
        recs = [recs[1], recs[0]]
    for r in recs:
        want += oname_c + dns.rdatatype.TXT.to_bytes(2, "big") + (1).to_bytes(2, "big") + ttl.to_bytes(4, "big") + len(r).to_bytes(2, "big") + r
    return got == want


def h15c_pre(o0, o1, s1, s2, labels, ttl, keytag, wild, rel_signer):
    return (0 <= o0 <= 255 and 0 <= o1 <= 255 and len(s1) <= 2 and len(s2) <= 2 and 0 <= labels <= 5 and 0 <= ttl < 2**32
            and 0 <= keytag <= 65535 and o0 != 42)


# ---------------------------------------------------------------- H15c2 signing input of a relativized name-bearing record set

def h15c2(a: int, b: int, c: int, abs2: bool, mx: bool, ttl: int) -> bool:
    """Records holding relative names (zone loaded with relativize=True) are expanded against the origin, lower-cased and THEN ordered:
    the order of the signed data is the canonical order of the expanded forms (one target may be a label-wise prefix of the other,
    or absolute and outside the zone)."""
    origin = dns.name.Name([b"ExAmple", b"Org", b""])
    owner = dns.name.Name([b"www"])
    t1 = dns.name.Name([bytes([a])])
    t2 = dns.name.Name([bytes([b]), bytes([c])] + ([b""] if abs2 else []))
    if mx:
        rtype = dns.rdatatype.MX
        r1 = dns.rdtypes.ANY.MX.MX(IN, rtype, 10, t1)
        r2 = dns.rdtypes.ANY.MX.MX(IN, rtype, 10, t2)
        pre = b"\x00\x0a"
    else:
        rtype = dns.rdatatype.NS
        r1 = dns.rdtypes.ANY.NS.NS(IN, rtype, t1)
        r2 = dns.rdtypes.ANY.NS.NS(IN, rtype, t2)
        pre = b""
    rds = dns.rdataset.Rdataset(IN, rtype)
    rds.add(r1, 300)
    rds.add(r2, 300)
    with concrete():
        tmpl = dns.rdata.from_text(IN, dns.rdatatype.RRSIG, "NS 8 3 3600 20300101000000 20200101000000 1 ExAmple.Org. AQID")
    rrsig = tmpl.replace(type_covered=rtype, original_ttl=ttl)
    got = dns.dnssec._make_rrsig_signature_data((owner, rds), rrsig, origin)
    hit("stream")
    prefix = (int(rtype).to_bytes(2, "big") + bytes([8, 3]) + ttl.to_bytes(4, "big")
              + tmpl.expiration.to_bytes(4, "big") + tmpl.inception.to_bytes(4, "big") + (1).to_bytes(2, "big"))
    want = prefix + canon_name(origin.labels)
    oname_c = canon_name(list(owner.labels) + list(origin.labels))
    full1 = list(t1.labels) + list(origin.labels)
    full2 = list(t2.labels) if abs2 else list(t2.labels) + list(origin.labels)
    recs = [pre + canon_name(full1), pre + canon_name(full2)]
    if recs[1] < recs[0]:
        recs = [recs[1], recs[0]]
    for r in recs:
        want += oname_c + int(rtype).to_bytes(2, "big") + (1).to_bytes(2, "big") + ttl.to_bytes(4, "big") + len(r).to_bytes(2, "big") + r
    return got == want


def h15c2_pre(a, b, c, abs2, mx, ttl):
    return 0 <= a <= 255 and 0 <= b <= 255 and 0 <= c <= 255 and 0 <= ttl < 2**32 and mx == S("mx") and abs2 == S("abs2")


# ---------------------------------------------------------------- H15d key tag

def h15d(flags: int, protocol: int, algorithm: int, key: bytes) -> bool:
    """DNSKEY.key_id() = RFC 4034 Appendix B (B.1 for algorithm 1)."""
    rd = dns.rdtypes.ANY.DNSKEY.DNSKEY(IN, dns.rdatatype.DNSKEY, flags, protocol, algorithm, key)
    got = dns.dnssec.key_id(rd)
    hit("tag")
    wire = flags.to_bytes(2, "big") + bytes([protocol, algorithm]) + key
    if algorithm == 1:
        want = wire[-3] * 256 + wire[-2]
    else:
        ac = 0
        for i in range(len(wire)):
            ac += wire[i] if i % 2 == 1 else wire[i] * 256
        ac += (ac // 65536) % 65536
        want = ac % 65536
    return got == want and rd.key_id() == want if hasattr(rd, "key_id") else got == want


def h15d_pre(flags, protocol, algorithm, key):
    return 0 <= flags <= 65535 and 0 <= protocol <= 255 and algorithm == S("alg") and len(key) == S("klen")


def h15d_shards(tier):
    algs = (1, 8, 13) if tier == "quick" else (1, 5, 8, 13, 15, 253)
    return [{"alg": a, "klen": k, "_timeout": 300, "_path_timeout": 60} for a in algs for k in ((0, 1, 2, 3, 6) if tier == "quick" else range(0, 8))
            if not (a == 1 and k == 0)]


# ---------------------------------------------------------------- H15e DS and NSEC3 hash inputs (ideal hash)

def h15e(o0: int, o1: int, iterations: int, salt: bytes, flags: int) -> bool:
    """DS digest input = canonical owner || DNSKEY RDATA; NSEC3 = H(owner||salt) then `iterations` x H(prev||salt); base32hex of the final value."""
    real = dns.dnssec.hashlib
    dns.dnssec.hashlib = HashlibShim
    try:
        del HSTREAMS[:]
        owner = dns.name.Name([bytes([o0, o1]), b"Example", b""])
        # --- NSEC3
        out = dns.dnssec.nsec3_hash(owner, salt, iterations, "SHA1")
        want = [canon_name(owner.labels) + salt]
        for i in range(iterations):
            want.append(bytes([i + 1]) * 20 + salt)
        if HSTREAMS != want:
            return False
        import base64
        final = bytes([iterations + 1]) * 20
        b32 = base64.b32encode(final).decode().translate(str.maketrans("ABCDEFGHIJKLMNOPQRSTUVWXYZ234567", "0123456789ABCDEFGHIJKLMNOPQRSTUV"))
        if out != b32:
            return False
        # --- DS
        del HSTREAMS[:]
        key = dns.rdtypes.ANY.DNSKEY.DNSKEY(IN, dns.rdatatype.DNSKEY, flags, 3, 8, b"\x01\x02\x03\x04")
        ds = dns.dnssec.make_ds(owner, key, "SHA256")
        hit("hashed")
        kw = flags.to_bytes(2, "big") + bytes([3, 8]) + b"\x01\x02\x03\x04"
        if HSTREAMS != [canon_name(owner.labels) + kw]:
            return False
        return ds.key_tag == dns.dnssec.key_id(key) and ds.algorithm == 8 and ds.digest_type == 2
    finally:
        dns.dnssec.hashlib = real


def h15e_pre(o0, o1, iterations, salt, flags):
    return 0 <= o0 <= 255 and 0 <= o1 <= 255 and 0 <= iterations <= 3 and len(salt) <= 2 and 0 <= flags <= 65535


# ---------------------------------------------------------------- H15g ZONEMD (SIMPLE scheme)

def h15g(c0: int, c1: int, ttl: int, relativize: bool) -> bool:
    """ZONEMD SIMPLE: the hash input is the RFC 8976 3.3 stream (canonical owner, type, class, TTL, length, canonical RDATA; apex ZONEMD excluded), for any case mix of origin and owner."""
    origin = dns.name.Name([bytes([c0]) + b"xample", b""])
    z = dns.zone.Zone(origin, relativize=relativize)
    www = dns.name.Name([bytes([c1]) + b"ww"])
    apex = dns.name.empty if relativize else origin
    with z.writer() as txn:
        txn.add(apex, dns.rdataset.from_text("IN", "SOA", ttl, "ns.example. hostmaster.example. 1 2 3 4 5"))
        txn.add(apex, dns.rdataset.from_text("IN", "NS", ttl, "NS.example."))
        txn.add(www if relativize else www.derelativize(origin), dns.rdataset.from_text("IN", "A", ttl, "10.0.0.2", "10.0.0.1"))
        txn.add(apex, dns.rdataset.from_text("IN", "ZONEMD", ttl, "1 1 1 " + "00" * 48))
    real = dict(dns.zonetypes._digest_hashers)
    import dns.zone as dz
    try:
        for k in list(dz._digest_hashers):
            dz._digest_hashers[k] = RecHash
        del HSTREAMS[:]
        z._compute_digest(dns.zonetypes.DigestHashAlgorithm.SHA384)
    finally:
        for k, v in real.items():
            dz._digest_hashers[k] = v
    hit("digest")
    oc = canon_name(origin.labels)
    wc = canon_name(list(www.labels) + list(origin.labels))
    t4 = ttl.to_bytes(4, "big")

    def rr(owner, rtype, rdata):
        return owner + rtype.to_bytes(2, "big") + (1).to_bytes(2, "big") + t4 + len(rdata).to_bytes(2, "big") + rdata

    ns = canon_name([b"NS", b"example", b""])
    soa = canon_name([b"ns", b"example", b""]) + canon_name([b"hostmaster", b"example", b""]) + b"".join([x.to_bytes(4, "big") for x in (1, 2, 3, 4, 5)])
    apex_part = rr(oc, 2, ns) + rr(oc, 6, soa)
    www_part = rr(wc, 1, b"\x0a\x00\x00\x01") + rr(wc, 1, b"\x0a\x00\x00\x02")
    # names in canonical order: apex first, then www
    want = apex_part + www_part
    return len(HSTREAMS) == 1 and HSTREAMS[0] == want


def h15g_pre(c0, c1, ttl, relativize):
    return c0 in (69, 101) and c1 in (87, 119) and 0 <= ttl < 2**31


# ---------------------------------------------------------------- H15f NSEC chain produced by sign_zone

NSEC_POOL = [("a", "A", "10.0.0.1"), ("sub", "NS", "ns.sub"), ("sub", "DS", "1 8 200 0102"), ("glue.sub", "A", "10.0.0.2"), ("deep.glue.sub", "A", "10.0.0.3"),
             ("x.ent", "TXT", '"t"'), ("*.w", "A", "10.0.0.4"), ("Z", "MX", "10 a"), ("sub", "A", "10.0.0.9")]


def h15f(mask: int) -> bool:
    """sign_zone (NSEC): the chain visits every authoritative name exactly once in canonical order, last -> apex, names beneath delegations skipped, exact type bitmaps (at a cut only NS / DS besides NSEC / RRSIG)."""
    origin = dns.name.from_text("example.")
    z = dns.zone.Zone(origin, relativize=False)
    present = {}
    with z.writer() as txn:
        txn.add(origin, dns.rdataset.from_text_list("IN", "SOA", 300, ["ns hostmaster 1 2 3 4 5"], origin=origin, relativize=False))
        txn.add(origin, dns.rdataset.from_text_list("IN", "NS", 300, ["ns"], origin=origin, relativize=False))
        present["example."] = ["SOA", "NS"]
        for i in range(len(NSEC_POOL)):
            if (mask >> i) % 2 == 1:
                owner, t, txt = NSEC_POOL[i]
                name = dns.name.from_text(owner, origin)
                txn.add(name, dns.rdataset.from_text_list("IN", t, 300, [txt], origin=origin, relativize=False))
                present.setdefault(name.to_text(), []).append(t)
    signed = []
    with z.writer() as txn:
        dns.dnssec.sign_zone(z, txn, add_dnskey=False, rrset_signer=lambda t, rrset: signed.append((rrset.name.to_text(), int(rrset.rdtype))))
    hit("signed")
    # reference chain
    names = sorted([dns.name.from_text(n) for n in present])
    cuts = [n for n in names if "NS" in present[n.to_text()] and n != origin]
    cuts = [c for c in cuts if not any([c != d and c.is_subdomain(d) for d in cuts])]
    auth = [n for n in names if not any([n != c and n.is_subdomain(c) for c in cuts])]
    for i, n in enumerate(auth):
        rds = z.get_rdataset(n, dns.rdatatype.NSEC)
        if rds is None or len(rds) != 1:
            return False
        nxt = auth[(i + 1) % len(auth)]
        if rds[0].next != nxt:
            return False
        types = set(present[n.to_text()])
        if n in cuts:
            types = types & {"NS", "DS"}
        want = sorted([int(dns.rdatatype.from_text(t)) for t in types] + [int(dns.rdatatype.NSEC), int(dns.rdatatype.RRSIG)])
        got = []
        for window, bitmap in rds[0].windows:
            for j, byte in enumerate(bitmap):
                for k in range(8):
                    if byte & (0x80 >> k):
                        got.append(window * 256 + j * 8 + k)
        if got != want:
            return False
    # no NSEC anywhere else
    for n in names:
        if n not in auth and z.get_rdataset(n, dns.rdatatype.NSEC) is not None:
            return False
    return True


def h15f_pre(mask):
    lo, hi = S("masks")
    if not (lo <= mask < hi):
        return False
    if S("no_cut_address") and (mask >> 8) % 2 == 1:
        return False
    return True


HARNESSES = [
    Harness("H15n", h15n, h15n_pre, lambda tier: [{"_timeout": 600}], kind="universal",
            encodes=["dns.name.Name.to_digestable", "dns.name.Name.to_wire", "dns.name.Name.canonicalize"],
            bound="two symbolic one-octet labels, relative or absolute, over an origin whose first label has two symbolic octets (case of the origin is the solver's choice)",
            stubs=[], outside="longer names"),
    Harness("H15a", h15a, h15a_pre, h15a_shards, kind="universal",
            encodes=["dns.rdata.Rdata.to_digestable", "dns.rdata.Rdata.to_wire", "dns.rdtypes.mxbase.MXBase._to_wire", "dns.rdtypes.nsbase.NSBase._to_wire",
                     "dns.rdtypes.ANY.SOA.SOA._to_wire", "dns.rdtypes.ANY.RRSIG.RRSIG._to_wire", "dns.rdtypes.ANY.NSEC.NSEC._to_wire"],
            bound="every Name-valued field of every implemented type's specimen (found by introspection at run time) replaced by a name of two symbolic one-octet labels, relative or absolute",
            stubs=["E1", "E6"], outside="names inside list-valued fields (HIP servers, SVCB parameters)"),
    Harness("H15c", h15c, h15c_pre, lambda tier: [{"_timeout": 1200, "_path_timeout": 120}], kind="universal",
            encodes=["dns.dnssec._make_rrsig_signature_data", "dns.dnssec._get_rrname_rdataset", "dns.rdata.Rdata.to_digestable", "dns.name.Name.split",
                     "dns.name.Name.is_wild"],
            bound="TXT rrset of two records with symbolic 0-2 octet strings; owner of two symbolic one-octet labels (or wildcard) under a mixed-case zone; RRSIG labels 0..5, original TTL 32 bit, key tag 16 bit symbolic; signer absolute or relative",
            stubs=["E1", "E6"], outside="other record types in the rrset (their canonical form is H15a)"),
    Harness("H15c2", h15c2, h15c2_pre, lambda tier: [{"mx": m, "abs2": a, "_timeout": 900, "_path_timeout": 120} for m in (False, True) for a in (False, True)],
            kind="universal over label octets and TTL",
            encodes=["dns.dnssec._make_rrsig_signature_data", "dns.rdata.Rdata.to_digestable", "dns.name.Name.to_digestable", "dns.rdata.Rdata._cmp"],
            bound="NS / MX record set of two records in relative form with a mixed-case two-label origin: targets one symbolic label, and two symbolic labels (relative, or absolute outside the zone); all three octets and the original TTL symbolic",
            stubs=["E1"], outside="more records; other name-bearing types (their canonical form is H15a)"),
    Harness("H15d", h15d, h15d_pre, h15d_shards, kind="universal",
            encodes=["dns.dnssec.key_id", "dns.rdtypes.dnskeybase.DNSKEYBase.key_id" if hasattr(dns.rdtypes.ANY.DNSKEY.DNSKEY, "key_id") else "dns.dnssec.key_id"],
            bound="flags 16 bit, protocol 8 bit symbolic; algorithm in {1, 8, 13} (thorough 6 values); key of 0,1,2,3,6 (0..7) symbolic octets",
            stubs=["E1", "E5", "E12"], outside="longer keys"),
    Harness("H15e", h15e, h15e_pre, lambda tier: [{"_timeout": 900, "_path_timeout": 120}], kind="universal",
            encodes=["dns.dnssec.nsec3_hash", "dns.dnssec.make_ds", "dns.dnssec.key_id"],
            bound="owner first label two symbolic octets, NSEC3 iterations 0..3, salt <= 2 symbolic octets, DNSKEY flags symbolic", stubs=["E9", "E1"],
            outside="the hash functions themselves (idealised)"),
    Harness("H15f", h15f, h15f_pre, lambda tier: [{"masks": (lo, lo + 64), "no_cut_address": False, "_timeout": 900, "_path_timeout": 120} for lo in range(0, 512, 64)],
            kind="finite selection of zone members, exhaustive",
            encodes=["dns.dnssec.sign_zone", "dns.dnssec._sign_zone_nsec", "dns.rdtypes.util.Bitmap.from_rdtypes"],
            bound="absolute zone assembled from 9 optional members (ordinary name, delegation NS / DS, address owned by the cut name, glue and deeper glue, a name under an empty non-terminal, wildcard, upper-case owner): all 512 subsets; RRset signer replaced by a recorder",
            stubs=["E6"], outside="relativized zones; NSEC3"),
    Harness("H15g", h15g, h15g_pre, lambda tier: [{"_timeout": 900, "_path_timeout": 120}], kind="finite selection of case, universal TTL",
            encodes=["dns.zone.Zone._compute_digest", "dns.name.Name.to_digestable", "dns.rdata.Rdata.to_digestable"],
            bound="4-rrset zone, upper/lower case of the origin's and an owner's first letter, relativized or absolute, TTL symbolic", stubs=["E9", "E6", "E1"],
            outside="other zones; RRSIG(ZONEMD)"),
]
