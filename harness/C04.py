"""C04  Untrusted wire or text input only ever raises the library's own errors."""

import vf.prelude  # noqa: F401
from vf.api import Harness, S, concrete, hit

import dns.exception
import dns.message
import dns.name
import dns.rdata
import dns.rdataclass
import dns.rdatatype
import dns.tokenizer
import dns.tsig
import dns.ttl
import dns.wirebase
import dns.zone
import dns.zonefile

from harness.common import Hang, step_budget, time_budget
from harness.types_common import EX, IN, implemented, lmin, specimen_text

PROPERTY = "C04"

WIRE_OK = (dns.exception.FormError,)
MSG_WIRE_OK = (dns.exception.FormError, dns.message.UnknownTSIGKey, dns.message.Truncated, dns.tsig.BadSignature, dns.tsig.BadTime,
               dns.tsig.BadAlgorithm, dns.tsig.BadKey, dns.tsig.PeerError, dns.exception.TooBig)
TEXT_OK = (dns.exception.SyntaxError,)
NAME_TEXT_OK = (dns.exception.SyntaxError, dns.name.NameTooLong, dns.name.IDNAException, dns.name.NoIDNA2008)
ZONE_OK = (dns.exception.SyntaxError, ValueError, KeyError, dns.zone.NoSOA, dns.zone.NoNS, dns.zone.UnknownOrigin,
           dns.zonefile.CNAMEAndOtherData, dns.zonefile.UnknownOrigin)
# rendering a value the library returned may refuse politely, but only with its own exceptions
RENDER_OK = (dns.exception.DNSException,)

TEXTY = {"NS", "CNAME", "PTR", "MX", "TXT", "HINFO", "X25", "ISDN", "RP", "AFSDB", "RT", "NSAP-PTR", "PX", "SRV", "NAPTR", "KX", "DNAME",
         "NINFO", "SPF", "URI", "CAA", "AVC", "RESINFO", "WALLET", "LP", "SOA", "NSEC", "CSYNC", "CH-A", "DSYNC", "SVCB", "HTTPS",
         "NSEC3PARAM", "L32", "NID", "L64", "EUI48", "EUI64", "APL", "A"}


# ---------------------------------------------------------------- H04a1 names from wire

def h04a1(buf: bytes, off: int) -> bool:
    """dns.name.from_wire: terminates; returns a name that renders, or raises FormError-family only."""
    try:
        with step_budget(dns.wirebase.Parser, "seek", len(buf) + 2):
            n, used = dns.name.from_wire(buf, off)
    except WIRE_OK:
        return True
    hit("accepted")
    n.to_text()
    n.to_wire()
    return True


def h04a1_pre(buf, off):
    return len(buf) == S("len") and -1 <= off <= S("len") + 1


# ---------------------------------------------------------------- H04a2 rdata from wire, then render

TEXT_CHEAP = {"NS", "CNAME", "PTR", "DNAME", "NSAP-PTR", "TXT", "SPF", "AVC", "NINFO", "RESINFO", "WALLET", "HINFO", "X25", "ISDN", "RP",
              "URI", "CAA", "MX", "KX", "RT", "AFSDB", "LP", "NSEC", "CSYNC", "APL", "OPENPGPKEY", "DHCID"}


def h04a2(buf: bytes, pick: int) -> bool:
    """dns.rdata.from_wire for every type: FormError family only; what it returns renders to wire and text without a foreign exception."""
    import harness.C02 as C02

    c, t = S("c"), S("t")
    if S("pooled"):
        with concrete():
            pool = C02.pool_for(c, t, S("name"), S("lmin"))
        buf = pool[pick]
    if S("prefix"):
        buf = bytes.fromhex(S("prefix")) + buf
    try:
        with step_budget(dns.wirebase.Parser, "seek", len(buf) + 4):
            rd = dns.rdata.from_wire(c, t, buf + b"\xaa", 0, len(buf))
    except WIRE_OK:
        return True
    hit("accepted")
    rd.to_wire()
    if S("pooled") or S("name") in TEXT_CHEAP:
        # (text of number-heavy types forks on every digit count; their text form is C05's subject)
        try:
            rd.to_text()
        except RENDER_OK:
            pass
    return True


def h04a2_pre(buf, pick):
    if S("pooled"):
        return len(buf) == 0 and 0 <= pick < S("npool")
    return len(buf) <= S("max") and pick == 0


def h04a2_shards(tier):
    import harness.C02 as C02

    return C02.h02a_shards(tier)


# ---------------------------------------------------------------- H04b message wire

COUNTS = [(0, 0, 0, 0), (1, 0, 0, 0), (0, 1, 0, 0), (0, 0, 1, 0), (0, 0, 0, 1), (2, 0, 0, 0), (1, 1, 0, 0), (1, 0, 0, 1), (0, 0, 1, 1)]


def h04b(wire: bytes, cont: bool, trailing: bool, rot: bool, qonly: bool, onerr: bool) -> bool:
    """dns.message.from_wire on header + arbitrary body: documented exceptions only; continue_on_error records instead of raising."""
    try:
        with step_budget(dns.wirebase.Parser, "seek", len(wire) + 4):
            m = dns.message.from_wire(wire, continue_on_error=cont, ignore_trailing=trailing, raise_on_truncation=rot,
                                      question_only=qonly, one_rr_per_rrset=onerr)
    except dns.message.Truncated:
        return rot
    except MSG_WIRE_OK:
        # with continue_on_error nothing after the 12-octet header may raise
        return not cont
    hit("parsed")
    if cont:
        for e in m.errors:
            if not (12 <= e.offset <= len(wire)):
                return False
            if not isinstance(e.exception, Exception):
                return False
    try:
        m.to_wire()
    except RENDER_OK:
        pass
    # (Message.to_text enumerates flag, rcode, type and class names: it realizes every symbolic header field
    # and is therefore outside this harness; rdata text rendering is covered per type by H04a2 / C05.)
    return True


def h04b_pre(wire, cont, trailing, rot, qonly, onerr):
    k = S("body")
    if len(wire) != 12 + k:
        return False
    if not S("allopts") and (qonly or onerr):
        return False
    if k >= 5 and COUNTS[S("counts")][0] >= 1:
        # a complete question: type / class become dictionary keys (hashing realizes them): small stated sets
        if not (wire[13] == 0 and wire[14] in (1, 41, 250, 255) and wire[15] == 0 and wire[16] in (1, 255)):
            return False
    qd, an, au, ad = COUNTS[S("counts")]
    ok = wire[4] == 0 and wire[5] == qd and wire[6] == 0 and wire[7] == an and wire[8] == 0 and wire[9] == au and wire[10] == 0 and wire[11] == ad
    if not ok:
        return False
    op = (wire[2] // 8) % 16
    if S("opcode") == "other":
        return op not in (0, 5)
    return op == S("opcode")


def h04b_shards(tier):
    out = []
    if tier == "quick":
        plan = []
        for ci in range(len(COUNTS)):
            for opc in (0, 5, 4):
                plan.append((ci, opc, 0 if sum(COUNTS[ci]) == 0 else 3, False))
        plan += [(1, 0, 5, False), (0, 0, 1, True), (2, 0, 3, True), (4, 5, 3, True)]
        for ci, opc, body, allopts in plan:
            out.append({"counts": ci, "opcode": opc, "body": body, "allopts": allopts, "_timeout": 900, "_path_timeout": 60})
        return out
    for ci in range(len(COUNTS)):
        for opc in (0, 5, "other"):
            for body in range(0, 7):
                if sum(COUNTS[ci]) == 0 and body > 1:
                    continue
                out.append({"counts": ci, "opcode": opc, "body": body, "allopts": True, "_timeout": 3000, "_path_timeout": 60})
    return out


# ---------------------------------------------------------------- H04c free text

ALPHA_TTL = "0129wdhmsWx -+"
ALPHA_NAME = 'a.\\0259@"'  # letters, dot, backslash, digits that make \DDD escapes below / above 255, at, quote
ALPHA_TOK = 'a0\\"();. \n\t$@'


def h04c(s: str) -> bool:
    """Free text into a text entry point: syntax-error family only; returned values render."""
    which = S("entry")
    try:
        if which == "name":
            n = dns.name.from_text(s)
            n.to_text()
            n.to_wire()
        elif which == "name_rel":
            n = dns.name.from_text(s, None)
            n.to_text()
        elif which == "ttl":
            v = dns.ttl.from_text(s)
            if not (0 <= v <= dns.ttl.MAX_TTL):
                return False
        elif which == "tokens":
            tok = dns.tokenizer.Tokenizer(s)
            for _ in range(12):
                t = tok.get()
                if t.is_eof():
                    break
                if t.is_identifier() or t.is_quoted_string():
                    try:
                        t.unescape()
                        t.unescape_to_bytes()
                    except TEXT_OK:
                        pass
            else:
                return False  # more tokens than characters: the tokenizer does not advance
        elif which == "txt":
            rd = dns.rdata.from_text(IN, dns.rdatatype.TXT, s)
            rd.to_text()
            rd.to_wire()
    except NAME_TEXT_OK if which.startswith("name") else TEXT_OK:
        return True
    hit("accepted")
    return True


def h04c_pre(s):
    alpha = S("alphabet")
    if len(s) != S("len"):
        return False
    if alpha is None:
        return all([ord(ch) <= 127 for ch in s])
    return all([ch in alpha for ch in s])


def h04c_shards(tier):
    out = []
    for entry, alpha, lens in (("name", None, (0, 1, 2)), ("name", ALPHA_NAME, (3, 4)), ("name_rel", ALPHA_NAME, (1, 2, 3)),
                               ("ttl", ALPHA_TTL, (0, 1, 2, 3, 4)), ("tokens", ALPHA_TOK, (0, 1, 2, 3, 4)), ("txt", ALPHA_TOK, (0, 1, 2, 3))):
        lens = list(lens) + ([max(lens) + 1] if tier == "thorough" else [])
        for n in lens:
            out.append({"entry": entry, "alphabet": alpha, "len": n, "_timeout": 900, "_path_timeout": 60})
    return out


# ---------------------------------------------------------------- H04d structured rdata text: one token replaced

ALPHA_D = '0a\\". -/=:'


def h04d(tok: str) -> bool:
    """A record's text with one token replaced by arbitrary short text: SyntaxError family only; accepted records render to text and wire."""
    c, t = S("c"), S("t")
    parts = S("parts")
    i = S("index")
    text = " ".join(parts[:i] + [tok] + parts[i + 1:])
    try:
        rd = dns.rdata.from_text(c, t, text, origin=EX, relativize=False)
    except TEXT_OK:
        return True
    hit("accepted")
    rd.to_text()
    rd.to_wire(origin=EX)
    return True


def h04d_pre(tok):
    return len(tok) <= S("len") and all([ch in ALPHA_D for ch in tok])


def h04d_shards(tier):
    out = []
    with concrete():
        for c, t, name in implemented():
            txt = specimen_text(name)
            if txt is None:
                continue
            parts = txt.split(" ")
            for i in range(len(parts)):
                if i >= 6 and tier == "quick":
                    break
                out.append({"c": c, "t": t, "name": name, "parts": parts, "index": i, "len": 2 if tier == "quick" else 3,
                            "_timeout": 300 if tier == "quick" else 1200, "_path_timeout": 60})
    return out


# ---------------------------------------------------------------- H04a3 mnemonic-rendered fields of records decoded from wire

ERR_POOL = [0, 1, 15, 16, 17, 18, 22, 23, 4095, 4096, 4097, 32767, 32768, 65534, 65535]
TYPE_POOL = [0, 1, 41, 250, 255, 256, 32768, 65280, 65534, 65535]


def h04a3(kind: int, pick: int) -> bool:
    """Records whose text form prints a mnemonic (TSIG / TKEY error, RRSIG / SIG covered type, NSEC-style bitmaps are H02f): decoded from
    wire with boundary values in that field, the value is refused with FormError or renders to text and wire without a foreign exception."""
    alg = b"\x0bhmac-sha256\x00"
    if kind == 0:
        err = ERR_POOL[pick]
        buf = alg + (1).to_bytes(6, "big") + (300).to_bytes(2, "big") + b"\x00\x02\xaa\xbb" + (7).to_bytes(2, "big") + err.to_bytes(2, "big") + b"\x00\x00"
        t = dns.rdatatype.TSIG
        c = dns.rdataclass.ANY
    elif kind == 1:
        err = ERR_POOL[pick]
        buf = alg + (1).to_bytes(4, "big") + (2).to_bytes(4, "big") + (3).to_bytes(2, "big") + err.to_bytes(2, "big") + b"\x00\x01k\x00\x00"
        t = dns.rdatatype.TKEY
        c = dns.rdataclass.ANY
    else:
        cov = TYPE_POOL[pick % len(TYPE_POOL)]
        buf = cov.to_bytes(2, "big") + bytes([8, 2]) + (300).to_bytes(4, "big") + (2).to_bytes(4, "big") + (1).to_bytes(4, "big") + (9).to_bytes(2, "big") + b"\x00" + b"\x01\x02"
        t = dns.rdatatype.RRSIG if kind == 2 else dns.rdatatype.SIG
        c = dns.rdataclass.IN
    try:
        rd = dns.rdata.from_wire(c, t, buf, 0, len(buf))
    except dns.exception.FormError:
        hit("refused")
        return True
    hit("accepted")
    rd.to_text()
    return rd.to_wire() == buf


def h04a3_pre(kind, pick):
    return 0 <= kind <= 3 and 0 <= pick < len(ERR_POOL)


# ---------------------------------------------------------------- H04d2 long tokens (length limits counted in octets)

LONG_TOKENS = ["a" * 63, "a" * 64, "a" * 255, "a" * 256, "\\200" * 63, "\\200" * 64, "\\200" * 127, "\\200" * 128, "\\200" * 255, "\\200" * 256,
               "\u00e9" * 127, "\u00e9" * 128, "\u00e9" * 255, "1" * 20, "9" * 40, "a." * 127 + "a", "a." * 128, "\\." * 100]


def h04d2(pick: int, quoted: bool) -> bool:
    """A record's text with one token replaced by a long token (lengths around 63 / 255 in characters and in octets): SyntaxError family
    only, and an accepted record renders to text and wire."""
    c, t = S("c"), S("t")
    parts = S("parts")
    i = S("index")
    tok = LONG_TOKENS[pick]
    if quoted:
        tok = '"' + tok + '"'
    text = " ".join(parts[:i] + [tok] + parts[i + 1:])
    # (the library wraps from_text in an exception converter that would also swallow the budget's Hang: note it here)
    hung = []
    try:
        with time_budget(20) as fired:
            hung = fired
            rd = dns.rdata.from_text(c, t, text, origin=EX, relativize=False)
    except TEXT_OK:
        return not hung
    except Hang:
        return False
    hit("accepted")
    rd.to_text()
    rd.to_wire(origin=EX)
    return True


def h04d2_pre(pick, quoted):
    return 0 <= pick < len(LONG_TOKENS)


def h04d2_shards(tier):
    out = []
    for sh in h04d_shards(tier):
        out.append({"c": sh["c"], "t": sh["t"], "name": sh["name"], "parts": sh["parts"], "index": sh["index"], "_timeout": 300, "_path_timeout": 60})
    return out


# ---------------------------------------------------------------- H04e zone files

ZONE_TEMPLATES = [
    "%s 300 IN A 10.0.0.1\n",
    "@ %s IN A 10.0.0.1\n",
    "@ 300 %s A 10.0.0.1\n",
    "@ 300 IN %s 10.0.0.1\n",
    "$TTL %s\n@ IN A 10.0.0.1\n",
    "$ORIGIN %s\n@ 300 IN A 10.0.0.1\n",
    "$GENERATE 1-2 a$ 300 IN A 10.0.0.%s\n",
    "$GENERATE %s a$ 300 IN A 10.0.0.1\n",
    "@ 300 IN TXT %s\n",
    "%s\n@ 300 IN A 10.0.0.1\n",
]
ALPHA_E = 'a1\\"();$@. -{}'


def h04e(tok: str) -> bool:
    """Zone text with one free token: SyntaxError family (zones: with file:line) or the documented ValueError/KeyError only."""
    if S("noorigin"):
        # no origin argument: the origin comes from a $ORIGIN directive, the free line comes before any owner was seen
        text = "$ORIGIN example.\n" + (ZONE_TEMPLATES[S("template")] % tok) + "@ 300 IN SOA ns hostmaster 1 2 3 4 5\n@ 300 IN NS ns\n"
        origin = None
    else:
        text = "@ 300 IN SOA ns hostmaster 1 2 3 4 5\n@ 300 IN NS ns\n" + (ZONE_TEMPLATES[S("template")] % tok)
        origin = "example."
    try:
        z = dns.zone.from_text(text, origin=origin, relativize=True)
    except dns.exception.SyntaxError as e:
        hit("syntax")
        return ":" in str(e)  # file:line prefix added by the zone reader
    except ZONE_OK:
        return True
    hit("accepted")
    z.to_text()
    return True


def h04e_pre(tok):
    return len(tok) == S("len") and all([ch in ALPHA_E for ch in tok])


def h04e_shards(tier):
    top = 2 if tier == "quick" else 3
    out = [{"template": i, "len": n, "_timeout": 900, "_path_timeout": 60} for i in range(len(ZONE_TEMPLATES)) for n in range(0, top + 1)]
    # the same free owner / free line / $TTL / $ORIGIN templates in a file that gets its origin from $ORIGIN only
    out += [{"template": i, "len": n, "noorigin": True, "_timeout": 900, "_path_timeout": 60} for i in (0, 4, 5, 9) for n in range(0, top + 1)]
    return out


HARNESSES = [
    Harness("H04a1", h04a1, h04a1_pre, lambda tier: [{"len": k, "_timeout": 300} for k in range(0, 6 if tier == "quick" else 8)], kind="universal",
            encodes=["dns.name.from_wire", "dns.name.from_wire_parser", "dns.wirebase.Parser.seek", "dns.wirebase.Parser.get_bytes"],
            bound="every buffer of <= 5 (7) octets, every offset incl. out-of-range ones; seek budget = termination", stubs=[], outside="longer buffers"),
    Harness("H04a2", h04a2, h04a2_pre, h04a2_shards, kind="universal",
            encodes=["dns.rdata.from_wire", "dns.rdata.from_wire_parser", "dns.exception.ExceptionWrapper", "dns.rdata.Rdata.to_text", "dns.rdata.Rdata.to_wire"],
            bound="the C02/H02a shard plan (every implemented type; pools for the text/float-converting types); to_wire() on every accepted value, to_text() for the pooled types and the character-string / name / bitmap types",
            stubs=["E1", "E2", "E3", "E4", "E5", "E12"], outside="longer RDATA; to_text of base64/hex-only types on symbolic content"),
    Harness("H04a3", h04a3, h04a3_pre, lambda tier: [{"_timeout": 300, "_path_timeout": 60}], kind="finite selection, exhaustive",
            encodes=["dns.rdtypes.ANY.TSIG.TSIG.__init__", "dns.rdtypes.ANY.TSIG.TSIG.to_styled_text", "dns.rdtypes.ANY.TKEY.TKEY.to_styled_text",
                     "dns.rdtypes.ANY.RRSIG.RRSIG.to_styled_text", "dns.rcode.to_text", "dns.rdatatype.to_text"],
            bound="TSIG and TKEY with 15 boundary values of the 16-bit error field (0 .. 65535 incl. 4095 / 4096), RRSIG and SIG with 10 boundary covered types; from_wire then to_text and to_wire",
            stubs=[], outside="other values (the renderers go through enum lookups: one concrete value per path)"),
    Harness("H04b", h04b, h04b_pre, h04b_shards, kind="universal",
            encodes=["dns.message.from_wire", "dns.message._WireReader.read", "dns.message._WireReader._get_question",
                     "dns.message._WireReader._get_section", "dns.message._WireReader._add_error", "dns.message.Message._parse_rr_header",
                     "dns.update.UpdateMessage._parse_rr_header"],
            bound="12-octet header with symbolic id/flags (opcode class per shard: QUERY, UPDATE, other), 9 section-count patterns with counts <= 2; quick: body of 3 symbolic octets (5 for a whole question in a QUERY, its type in {A,OPT,TSIG,ANY} and class in {IN,ANY}) and continue_on_error / ignore_trailing / raise_on_truncation symbolic (all five options on 3 shards); thorough: every body length <= 6, all five options",
            stubs=["E1", "E5", "E6", "E12"], outside="bodies > 6 octets after the header (record-level depth comes from H04a2); Message.to_text of symbolic headers"),
    Harness("H04c", h04c, h04c_pre, h04c_shards, kind="universal",
            encodes=["dns.name.from_text", "dns.ttl.from_text", "dns.tokenizer.Tokenizer.get", "dns.tokenizer.Token.unescape",
                     "dns.tokenizer.Token.unescape_to_bytes", "dns.rdtypes.txtbase.TXTBase.from_text"],
            bound="names: every ASCII string of <= 2 characters and every string of <= 4 (5) characters over a . \\ 0 2 5 9 @ \" (escape machinery incl. \\DDD above 255); TTLs, token streams and TXT rdata: strings of <= 4 (3) characters over the parser's own alphabet (digits, units, escapes, quotes, parentheses, comment, whitespace)",
            stubs=["E2", "E3", "E4"], outside="longer text; non-Latin-1 (IDNA) input"),
    Harness("H04d", h04d, h04d_pre, h04d_shards, kind="universal", batch=3,
            encodes=["dns.rdata.from_text", "dns.exception.ExceptionWrapper", "dns.tokenizer.Tokenizer.get_uint8", "dns.tokenizer.Tokenizer.get_uint16",
                     "dns.tokenizer.Tokenizer.get_uint32", "dns.tokenizer.Tokenizer.get_name", "dns.tokenizer.Tokenizer.get_string"],
            bound="for every type's specimen text, each of the first 6 tokens (thorough: all) replaced by any string of <= 2 (3) characters over 0 a \\ \" . space - / = :",
            stubs=["E2", "E3", "E4"], outside="other characters; two tokens at once"),
    Harness("H04d2", h04d2, h04d2_pre, h04d2_shards, kind="finite selection, exhaustive", batch=16,
            encodes=["dns.rdata.from_text", "dns.rdata.Rdata._as_bytes", "dns.tokenizer.Token.unescape", "dns.tokenizer.Token.unescape_to_bytes",
                     "dns.rdata.Rdata.to_wire", "dns.rdata.Rdata.to_text"],
            bound="for every type's specimen text, each of the first 6 tokens (thorough: all) replaced by each of 18 long tokens (63 / 64 / 255 / 256 characters, the same counts of \\DDD escapes and of two-octet UTF-8 characters, long digit strings, 128-label names), quoted or not",
            stubs=[], outside="other lengths"),
    Harness("H04e", h04e, h04e_pre, h04e_shards, kind="universal",
            encodes=["dns.zonefile.Reader.read", "dns.zonefile.Reader._rr_line", "dns.zonefile.Reader._generate_line", "dns.zonefile.Reader._parse_modify",
                     "dns.zone.from_text"],
            bound="10 zone-file templates (owner, TTL, class, type, $TTL, $ORIGIN, $GENERATE range and rhs, TXT data, a whole free line; 4 of them also as the first lines of a file parsed without an origin argument, after a $ORIGIN directive) with one free token of <= 2 (3) characters over a 1 \\ \" ( ) ; $ @ . space - { }",
            stubs=["E2", "E3", "E4"], outside="$INCLUDE; longer tokens"),
]
