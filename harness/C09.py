"""C09  Zones survive write-then-read as text; equivalent zone-file spellings agree."""

import io

import vf.prelude  # noqa: F401
from vf.api import Harness, S, concrete, hit

import dns.btreezone
import dns.exception
import dns.name
import dns.rdata
import dns.rdataclass
import dns.rdataset
import dns.rdatatype
import dns.versioned
import dns.zone
import dns.zonefile

PROPERTY = "C09"
ORIGIN = dns.name.from_text("example.")
ZONE_CLASSES = {"plain": dns.zone.Zone, "versioned": dns.versioned.Zone, "btree": dns.btreezone.Zone}

# pool of rrsets (owner relative to the origin, type, [rdata texts]) besides the apex SOA/NS
POOL = [
    ("www", "A", ["10.0.0.1", "10.0.0.2"]),
    ("www", "TXT", ['"a b" "c;d"', '"\\200\\"x"']),
    ("*", "MX", ["10 mail", "20 mail.other."]),
    ("a\\.b\\@", "A", ["10.0.0.3"]),
    ("alias", "CNAME", ["www"]),
    ("@", "DNSKEY", ["257 3 8 " + "AQIDBAUGBwgJCgsMDQ4PEBESExQVFhcYGRobHB0eHyAhIiMkJSYnKCkqKywtLi8w"]),
    ("sub", "NS", ["ns.sub"]),
    ("ns.sub", "A", ["10.0.0.4"]),
]
TTLS = [0, 7, 300, 2**31 - 1]


def build_zone(kind, relativize, mask, ttls, label):
    """Zone with SOA/NS plus the pool members selected by `mask`; TTL of member i = TTLS[ttls digit i]; `label` = one symbolic octet owner."""
    z = ZONE_CLASSES[kind](ORIGIN, relativize=relativize)
    with z.writer(True) as txn:
        def nm(owner):
            n = dns.name.empty if owner == "@" else dns.name.from_text(owner, None)
            return n if relativize else n.derelativize(ORIGIN)
        txn.add(nm("@"), dns.rdataset.from_text_list("IN", "SOA", 300, ["ns hostmaster 1 2 3 4 5"], origin=ORIGIN, relativize=relativize))
        txn.add(nm("@"), dns.rdataset.from_text_list("IN", "NS", 300, ["ns"], origin=ORIGIN, relativize=relativize))
        t = ttls
        for i in range(len(POOL)):
            if (mask >> i) % 2 == 1:
                owner, rdtype, rds = POOL[i]
                ttl = TTLS[t % 4]
                txn.add(nm(owner), dns.rdataset.from_text_list("IN", rdtype, ttl, rds, origin=ORIGIN, relativize=relativize))
            t //= 4
        if label is not None:
            n = dns.name.Name([bytes([label])])
            txn.add(n if relativize else n.derelativize(ORIGIN), dns.rdataset.from_text("IN", "A", 60, "10.9.9.9"))
    return z


def render(z, style):
    f = io.StringIO()
    z.to_styled_file(style, f)
    return f.getvalue()


# ---------------------------------------------------------------- H09a round trip under lossless styles

def h09a(mask: int, ttls: int, label: int, k1: int, k2: int) -> bool:
    """from_text(z.to_styled_text(style)) == z for every zone of the family and every value of one group of lossless style knobs."""
    kind, relativize, group = S("zone"), S("relativize"), S("group")
    lo, hi = S("masks")
    if hi - lo == 1:
        mask = lo  # pinned by the shard: keep the solver out of the membership arithmetic
    if S("ttls") is False:
        ttls = FIXED_TTLS
    z = build_zone(kind, relativize, mask, ttls, label if S("label") else None)
    kw = {"origin": ORIGIN, "relativize": relativize, "nl": "\n"}
    if group == "order":
        kw.update(sorted=k1 % 2 == 1, want_origin=(k1 // 2) % 2 == 1, deduplicate_names=k2 % 2 == 1, default_ttl=[None, 0, 300, 86400][(k2 // 2) % 4])
    elif group == "just":
        kw.update(name_just=[0, -20, -3][k1 % 3], ttl_just=[0, -12, 12][(k1 // 3) % 3], rdclass_just=[0, -6, 6][k2 % 3], rdtype_just=[0, -8, 8][(k2 // 3) % 3])
    elif group == "chunks":
        kw.update(base64_chunk_size=k1, hex_chunk_size=k2)
    elif group == "generic":
        kw.update(want_generic=k1 % 2 == 1, want_comments=(k1 // 2) % 2 == 1, omit_final_dot=False)
    style = dns.zone.ZoneStyle(**kw)
    text = render(z, style)
    hit("rendered")
    back = dns.zone.from_text(text, origin=ORIGIN, relativize=relativize, zone_factory=ZONE_CLASSES[kind])
    if back != z:
        return False
    # equality of zones ignores TTLs: compare them too
    for name, node in z.nodes.items():
        for rds in node:
            other = back.get_rdataset(name, rds.rdtype, rds.covers)
            if other is None or other.ttl != rds.ttl:
                return False
    return True


FIXED_TTLS = sum([(i % 4) * 4**i for i in range(len(POOL))])  # member i has TTL TTLS[i % 4]: 0, 7, 300, 2^31-1, 0, ...
CHUNKS = [0, 1, 2, 3, 4, 5, 8, 16, 32, 40]


def h09a_pre(mask, ttls, label, k1, k2):
    lo, hi = S("masks")
    if not (lo <= mask < hi and 0 <= ttls < 4**len(POOL) and 0 <= label <= 255):
        return False
    if not S("label") and label != 0:
        return False
    if S("label") and (mask != 0 or ttls != 0):
        return False
    if S("ttls") is False and ttls != FIXED_TTLS:
        return False
    group = S("group")
    if group == "order":
        return 0 <= k1 <= 3 and 0 <= k2 <= 7
    if group == "just":
        if S("tier") == "quick" and not (k2 == k1 or k2 == (k1 + 4) % 9):
            return False  # quick: 18 of the 81 combinations (every value of every knob, paired two ways)
        return 0 <= k1 <= 8 and 0 <= k2 <= 8
    if group == "chunks":
        if S("tier") == "quick" and not (k1 in CHUNKS and k2 in CHUNKS):
            return False
        return 0 <= k1 <= 40 and 0 <= k2 <= 40 and (k1 == 0 or k2 == 0 or k1 == k2)
    if S("k1") is not None and k1 != S("k1"):
        return False
    return 0 <= k1 <= 3 and k2 == 0


def h09a_shards(tier):
    out = []
    single = [(1 << i, (1 << i) + 1) for i in range(len(POOL))]
    for kind in ("plain", "versioned", "btree"):
        for rel in (True, False):
            if tier == "quick" and kind == "versioned":
                continue
            for group in ("order", "just", "chunks", "generic"):
                masks = [(0b11111111, 0b11111111 + 1)] if tier == "quick" else [(0b11111111, 0b100000000)] + single
                for m in masks:
                    out.append({"zone": kind, "relativize": rel, "group": group, "masks": m, "label": False, "ttls": False, "tier": tier,
                                "_timeout": 900, "_path_timeout": 120})
            # symbolic owner octet (escapes in owner names), default style
            out.append({"zone": kind, "relativize": rel, "group": "generic", "masks": (0, 1), "label": True, "ttls": True, "_timeout": 900, "_path_timeout": 120})
    # membership and TTL choice symbolic, default knobs
    # (one shard per membership mask; the TTL of every member is a symbolic choice among 4; default knobs)
    for m in range(8 if tier == "quick" else 32):
        out.append({"zone": "plain", "relativize": True, "group": "generic", "masks": (m, m + 1), "label": False, "ttls": True, "k1": 0, "_timeout": 1500, "_path_timeout": 120})
    return out


# ---------------------------------------------------------------- H09b equivalent spellings

# (SOA minimum 60: once the SOA has been read, a record without TTL takes the default TTL = SOA minimum;
# inheritance from the previous record's TTL, which applies only while no default is known, is H09b2's subject)
BASE = "@ 300 IN SOA ns hostmaster 1 2 3 4 60\n@ 300 IN NS ns\n"


def spell(owner_inherit, ttl_inherit, class_mode, abs_names, multiline, use_ttl_directive, gen):
    """Two spellings of the same data: the canonical one and the one under the chosen options."""
    canon = BASE + "a 60 IN A 10.0.0.1\na 60 IN A 10.0.0.2\nb 60 IN MX 10 a\nc1 60 IN A 10.0.1.1\nc2 60 IN A 10.0.1.2\nc3 60 IN A 10.0.1.3\n"
    o = "a.example." if abs_names else "a"
    lines = []
    if use_ttl_directive:
        lines.append("$TTL 60")
    ttl = "" if (use_ttl_directive or ttl_inherit) else "60 "
    first_ttl = "" if use_ttl_directive else "60 "
    cls = ["IN ", "", "IN "][class_mode]
    def rec(owner, t, c, rest):  # noqa: E306
        if class_mode == 2 and t and c:
            return "%s %s%s%s" % (owner, c, t, rest)  # class before TTL
        return "%s %s%s%s" % (owner, t, c, rest)
    lines.append(rec(o, first_ttl, "IN ", "A 10.0.0.1"))
    lines.append(rec("" if owner_inherit else o, ttl, cls, "A 10.0.0.2"))
    mx = "MX (\n 10\n %s )" % ("a.example." if abs_names else "a") if multiline else "MX 10 %s" % ("a.example." if abs_names else "a")
    lines.append(rec("b.example." if abs_names else "b", ttl, cls, mx))
    if gen:
        lines.append("$GENERATE 1-3 c$ %s%sA 10.0.1.$" % (ttl if ttl else ("" if use_ttl_directive or ttl_inherit else "60 "), cls))
    else:
        for i in (1, 2, 3):
            lines.append(rec("c%d" % i, ttl, cls, "A 10.0.1.%d" % i))
    # a record inheriting its owner from the line before (the last generated / written name: c3)
    lines.append(rec("" if owner_inherit else "c3", ttl, cls, "TXT \"after\""))
    canon += "c3 60 IN TXT \"after\"\n"
    # names below a mid-file $ORIGIN (a proper subdomain of the zone origin), written or generated, with a name in the RDATA
    canon += "g1.sub 60 IN CNAME h1.sub\ng2.sub 60 IN CNAME h2.sub\nm.sub 60 IN MX 10 x.sub\n"
    lines.append("$ORIGIN sub.example.")
    if gen:
        lines.append("$GENERATE 1-2 g$ %s%sCNAME h$" % (ttl if ttl else ("" if use_ttl_directive or ttl_inherit else "60 "), cls))
    else:
        lines.append(rec("g1", ttl, cls, "CNAME h1"))
        lines.append(rec("g2", ttl, cls, "CNAME h2"))
    lines.append(rec("m.sub.example." if abs_names else "m", ttl, cls, "MX 10 %s" % ("x.sub.example." if abs_names else "x")))
    return canon, BASE + "\n".join(lines) + "\n"


def h09b(owner_inherit: bool, ttl_inherit: bool, class_mode: int, abs_names: bool, multiline: bool, use_ttl_directive: bool, gen: bool) -> bool:
    """Inherited vs explicit owner / TTL / class, either order of TTL and class, relative vs absolute names, multi-line vs single line, $TTL, $GENERATE vs its expansion: equal zones."""
    canon, other = spell(owner_inherit, ttl_inherit, class_mode, abs_names, multiline, use_ttl_directive, gen)
    relativize = S("relativize")
    z1 = dns.zone.from_text(canon, origin=ORIGIN, relativize=relativize)
    z2 = dns.zone.from_text(other, origin=ORIGIN, relativize=relativize)
    hit("loaded")
    if z1 != z2:
        return False
    for name, node in z1.nodes.items():
        for rds in node:
            o = z2.get_rdataset(name, rds.rdtype, rds.covers)
            if o is None or o.ttl != rds.ttl:
                return False
    return True


def h09b_pre(owner_inherit, ttl_inherit, class_mode, abs_names, multiline, use_ttl_directive, gen):
    return 0 <= class_mode <= 2


def h09b2(t1: int, t2: int, class_first: bool, first_has_class: bool) -> bool:
    """While no default TTL is known, a record without TTL inherits the TTL of the previous record, whichever of `ttl class` / `class ttl` order that record used."""
    # (str(), not "%d" %: the latter realizes a symbolic int, one value per path)
    s1, s2 = str(t1), str(t2)
    a = "a " + s1 + " " + ("IN " if first_has_class else "") + "A 10.0.0.1"
    b = ("b IN " + s2 + " A 10.0.0.2") if class_first else ("b " + s2 + " IN A 10.0.0.2")
    text = a + "\n" + b + "\nc A 10.0.0.3\n"
    explicit = "a " + s1 + " IN A 10.0.0.1\nb " + s2 + " IN A 10.0.0.2\nc " + s2 + " IN A 10.0.0.3\n"
    r1 = dns.zonefile.read_rrsets(text, origin=ORIGIN, relativize=True, rdclass=None)
    r2 = dns.zonefile.read_rrsets(explicit, origin=ORIGIN, relativize=True, rdclass=None)
    hit("read")
    if len(r1) != 3 or len(r2) != 3:
        return False
    for x, y in zip(r1, r2):
        if x != y or x.ttl != y.ttl:
            return False
    return True


def h09b2_pre(t1, t2, class_first, first_has_class):
    if class_first != S("cf") or first_has_class != S("fc"):
        return False
    return 0 <= t1 <= 99999 and 0 <= t2 <= 99999


# ---------------------------------------------------------------- H09c loading policy

def h09c(first: int, second: int, outside: bool) -> bool:
    """Records outside the origin are ignored; a CNAME never coexists with other data after loading (either an error or a clean node)."""
    kinds = ["CNAME t", "A 10.0.0.1", "TXT \"x\"", "NSEC a A", "RRSIG CNAME 8 2 60 20300101000000 20200101000000 1 example. AQID", "MX 10 m"]
    text = BASE + "x 60 IN %s\nx 60 IN %s\n" % (kinds[first], kinds[second])
    if outside:
        text += "www.other. 60 IN A 10.1.1.1\n"
    try:
        z = dns.zone.from_text(text, origin=ORIGIN, relativize=True)
    except dns.zonefile.CNAMEAndOtherData:
        hit("refused")
        cname_kind, regular = (0, 4), (1, 2, 5)
        return (first in cname_kind and second in regular) or (second in cname_kind and first in regular)
    hit("loaded")
    if (first in (0, 4) and second in (1, 2, 5)) or (second in (0, 4) and first in (1, 2, 5)):
        return False  # must have been refused
    node = z.get_node("x")
    types = [rds.rdtype for rds in node]
    if dns.rdatatype.CNAME in types:
        for t in types:
            if t not in (dns.rdatatype.CNAME, dns.rdatatype.NSEC, dns.rdatatype.RRSIG, dns.rdatatype.KEY, dns.rdatatype.NSEC3):
                return False
    for name in z.nodes:
        if not name.derelativize(ORIGIN).is_subdomain(ORIGIN):
            return False
    return z.get_node(dns.name.from_text("www.other.")) is None if False else True


def h09c_pre(first, second, outside):
    return 0 <= first <= 5 and 0 <= second <= 5


HARNESSES = [
    Harness("H09a", h09a, h09a_pre, h09a_shards, kind="finite selection of style knobs / members with universal owner octet",
            encodes=["dns.zone.Zone.to_styled_file", "dns.rdataset.Rdataset.to_styled_text", "dns.node.Node.to_styled_text", "dns.zone.from_text",
                     "dns.zonefile.Reader.read", "dns.zonefile.Reader._rr_line", "dns.rdata.Rdata.to_generic", "dns.rdataset.justify"],
            bound="a 10-rrset zone (wildcard, escaped owner, CNAME, delegation + glue, DNSKEY, TXT with quotes / semicolons / high octets; TTLs 0..2^31-1) under 4 knob groups, one group symbolic at a time: {sorted, want_origin, deduplicate_names, default_ttl in None / 0 / 300 / 86400} | {name/ttl/class/type justification, left or none} | {base64 and hex chunk sizes 0..40; quick: 10 pooled sizes, and 18 of the 81 justification combinations} | {want_generic, want_comments}; plus a symbolic one-octet owner label (all 256 values) and, on the plain zone, every membership of the first 3 (thorough: 5) pool rrsets with a symbolic TTL choice (4 values) per member; zone classes plain, btree (thorough: versioned) x relativize",
            stubs=["E2", "E3", "E4", "E6"], outside="knob combinations across groups; zones with > 10 rrsets; $INCLUDE; options documented as lossy"),
    Harness("H09b", h09b, h09b_pre, lambda tier: [{"relativize": r, "_timeout": 1200, "_path_timeout": 120} for r in (True, False)], kind="finite selection, exhaustive",
            encodes=["dns.zonefile.Reader._rr_line", "dns.zonefile.Reader.read", "dns.zonefile.Reader._generate_line", "dns.zonefile.Reader._parse_modify",
                     "dns.tokenizer.Tokenizer.get"],
            bound="all 2^6 x 3 combinations of: inherited owner, inherited TTL, class explicit / omitted / before the TTL, absolute vs relative names, parenthesised multi-line record, $TTL directive, $GENERATE 1-3 vs its expansion",
            stubs=["E6"], outside="$GENERATE modifiers ${offset,width,base}; $INCLUDE"),
    Harness("H09b2", h09b2, h09b2_pre, lambda tier: [{"cf": cf, "fc": fc, "_timeout": 900, "_path_timeout": 120} for cf in (False, True) for fc in (False, True)], kind="universal over the TTLs",
            encodes=["dns.zonefile.Reader._rr_line", "dns.zonefile.read_rrsets", "dns.ttl.from_text"],
            bound="three records without SOA / $TTL; TTLs symbolic 0..99999; class-before-TTL or TTL-before-class; class present or omitted on the first record",
            stubs=["E2", "E6"], outside="longer files"),
    Harness("H09c", h09c, h09c_pre, lambda tier: [{"_timeout": 600}], kind="finite selection, exhaustive",
            encodes=["dns.zonefile._check_cname_and_other_data", "dns.zonefile.Reader._rr_line", "dns.zone.Zone._validate_name"],
            bound="every ordered pair of {CNAME, A, TXT, NSEC, RRSIG(CNAME), MX} at one owner; with / without an out-of-zone record", stubs=["E6"], outside=""),
]
