"""C11  Versioned-zone readers see one immutable snapshot; version retention is sound."""

import vf.prelude  # noqa: F401
from vf.api import Harness, S, concrete, hit

import dns.btree
import dns.btreezone
import dns.name
import dns.exception
import dns.rdata
import dns.rdataclass
import dns.rdataset
import dns.rdatatype
import dns.transaction
import dns.versioned
import dns.zone

PROPERTY = "C11"

ZTXT = "@ 300 IN SOA ns hostmaster 1 2 3 4 5\n@ 300 IN NS ns\nns 300 IN A 10.0.0.1\n"
ZONE_CLASSES = {"versioned": dns.versioned.Zone, "btree": dns.btreezone.Zone}
MARK = [dns.name.from_text("m%d" % i, None) for i in range(12)]
TXT = dns.rdataset.from_text("IN", "TXT", 300, '"x"')


def make_zone(kind):
    with concrete():
        z = dns.zone.from_text(ZTXT, "example.", zone_factory=ZONE_CLASSES[kind])
        z.set_max_versions(None)  # the history starts with retention unlimited; events change the policy
    return z


def markers_in(txn):
    return sorted([n.to_text() for n in txn.iterate_names() if n.to_text().startswith("m")])


class Ref:
    """B4: committed ids in order, retained suffix, pins, policy."""

    def __init__(self, first_id):
        self.history = [first_id]        # ids ever committed
        self.retained = [first_id]
        self.content = {first_id: []}    # id -> marker names (concrete keys)
        self.policy = ("max", None)
        self.readers = []                # [ (id) ]

    def allows_drop(self, size, vid):
        kind, arg = self.policy
        if kind == "max":
            return arg is not None and size > arg
        if kind == "keepall":
            return False
        if kind == "dropall":
            return True
        return vid % 2 == 0  # "even": drop versions with an even id

    def prune(self):
        least = min(self.readers) if self.readers else self.retained[-1]
        while self.retained[0] < least and self.allows_drop(len(self.retained), self.retained[0]):
            self.retained.pop(0)


def install_policy(z, ref, p, n):
    if p == 0:
        z.set_max_versions(None if n == 0 else n)
        ref.policy = ("max", None if n == 0 else n)
    elif p == 1:
        z.set_pruning_policy(lambda zone, v: False)
        ref.policy = ("keepall", None)
    elif p == 2:
        z.set_pruning_policy(None)
        ref.policy = ("dropall", None)
    else:
        z.set_pruning_policy(lambda zone, v: v.id % 2 == 0)
        ref.policy = ("even", None)
    ref.prune()


OPEN_LATEST, OPEN_ID, OPEN_SERIAL, CLOSE, COMMIT, ROLLBACK, POLICY = range(7)


def state_ok(z, ref, open_readers):
    ids = [v.id for v in z._versions]
    if ids != ref.retained:
        return False
    # contiguous run of history ending in the newest version, containing every pinned version
    h = ref.history
    if ids != h[len(h) - len(ids):]:
        return False
    for i in range(len(ids) - 1):
        if not ids[i] < ids[i + 1]:
            return False
    for txn, vid in open_readers:
        if vid not in ids:
            return False
        if markers_in(txn) != sorted(ref.content[vid]):
            return False  # the snapshot changed under an open reader
    return True


def valid_event(e, a, b):
    if e == POLICY:
        return 0 <= a <= 3 and 0 <= b <= 3 and (a == 0 or b == 0)
    if e in (OPEN_ID, OPEN_SERIAL, CLOSE):
        return 0 <= a <= 3 and b == 0
    return 0 <= e <= 6 and a == 0 and b == 0


def h11a(e1: int, a1: int, b1: int, e2: int, a2: int, b2: int, e3: int, a3: int, b3: int, e4: int, a4: int, b4: int) -> bool:
    """Every history of reader open (latest / by id / by serial) / close, commit, rollback and policy changes keeps ids increasing, the retained run contiguous, pinned and newest versions present, equal to the reference policy, and every open reader's snapshot unchanged."""
    kind = S("zone")
    z = make_zone(kind)
    ref = Ref(z._versions[-1].id)
    serial_of = {ref.history[0]: 1}
    readers = []
    nmark = 0
    events = [(e1, a1, b1), (e2, a2, b2), (e3, a3, b3), (e4, a4, b4)][:S("n")]
    for e, a, b in events:
        if e == OPEN_LATEST:
            t = z.reader()
            vid = t.version.id
            if vid != ref.retained[-1]:
                return False
            readers.append((t, vid))
            ref.readers.append(vid)
        elif e == OPEN_ID:
            # a-th retained version (from the oldest); ids no longer retained must be refused
            if a < len(ref.retained):
                want = ref.retained[a]
                t = z.reader(id=want)
                if t.version.id != want:
                    return False
                readers.append((t, want))
                ref.readers.append(want)
            else:
                gone = ref.history[0] - 1 + 0 if not ref.history else (ref.history[-1] + 5)
                try:
                    z.reader(id=gone)
                    return False
                except KeyError:
                    pass
        elif e == OPEN_SERIAL:
            if a < len(ref.retained):
                want = ref.retained[a]
                t = z.reader(serial=serial_of[want])
                # several versions can carry the same serial (commits that did not bump it): newest match wins
                if serial_of[t.version.id] != serial_of[want]:
                    return False
                readers.append((t, t.version.id))
                ref.readers.append(t.version.id)
        elif e == CLOSE:
            if a < len(readers):
                t, vid = readers.pop(a)
                t.rollback()
                ref.readers.remove(vid)
                ref.prune()
        elif e == COMMIT:
            with z.writer() as w:
                w.add(MARK[nmark], TXT)
                w.update_serial()
            newid = z._versions[-1].id
            if not newid > ref.history[-1]:
                return False  # ids strictly increase
            ref.content[newid] = ref.content[ref.history[-1]] + [MARK[nmark].to_text()]
            serial_of[newid] = serial_of[ref.history[-1]] + 1
            nmark += 1
            ref.history.append(newid)
            ref.retained.append(newid)
            ref.prune()
        elif e == ROLLBACK:
            w = z.writer()
            w.add(MARK[nmark + 6], TXT)
            w.rollback()
            # a rolled-back writer consumes no version and changes nothing
        else:
            install_policy(z, ref, a, b)
        if not state_ok(z, ref, readers):
            return False
    hit("history")
    return True


def h11a_pre(e1, a1, b1, e2, a2, b2, e3, a3, b3, e4, a4, b4):
    evs = [(e1, a1, b1), (e2, a2, b2), (e3, a3, b3), (e4, a4, b4)]
    n = S("n")
    for i in range(4):
        e, a, b = evs[i]
        if i < n:
            if not valid_event(e, a, b):
                return False
        elif not (e == 0 and a == 0 and b == 0):
            return False
    return e1 == S("e1") and (S("e2") is None or e2 == S("e2"))


def h11a_shards(tier):
    out = []
    for kind in ("versioned", "btree"):
        if tier == "quick":
            for e1 in (OPEN_LATEST, COMMIT, POLICY):
                out.append({"zone": kind, "n": 3, "e1": e1, "e2": None, "_timeout": 1200, "_path_timeout": 60})
            # the histories that matter most start with a commit and an open reader
            for e2 in range(7):
                out.append({"zone": kind, "n": 4, "e1": COMMIT, "e2": e2, "_timeout": 1500, "_path_timeout": 60})
        else:
            for e1 in range(7):
                for e2 in range(7):
                    out.append({"zone": kind, "n": 4, "e1": e1, "e2": e2, "_timeout": 3000, "_path_timeout": 60})
    return out


# ---------------------------------------------------------------- H11b one pruning step from any valid state

def h11b(mask: int, p: int, n: int) -> bool:
    """From a state with k retained versions and any set of pinned versions, one policy change prunes exactly what the reference allows."""
    kind, k = S("zone"), S("k")
    z = make_zone(kind)
    ref = Ref(z._versions[-1].id)
    with concrete():
        for i in range(k - 1):
            with z.writer() as w:
                w.add(MARK[i], TXT)
            newid = z._versions[-1].id
            ref.content[newid] = ref.content[ref.history[-1]] + [MARK[i].to_text()]
            ref.history.append(newid)
            ref.retained.append(newid)
    readers = []
    for i in range(k):
        if (mask >> i) % 2 == 1:
            t = z.reader(id=ref.retained[i])
            readers.append((t, ref.retained[i]))
            ref.readers.append(ref.retained[i])
    install_policy(z, ref, p, n)
    hit("pruned")
    if not state_ok(z, ref, readers):
        return False
    # closing the oldest reader prunes again
    if readers:
        t, vid = readers.pop(0)
        t.rollback()
        ref.readers.remove(vid)
        ref.prune()
        if not state_ok(z, ref, readers):
            return False
    return True


def h11b_pre(mask, p, n):
    return 0 <= mask < 2**S("k") and 0 <= p <= 3 and 0 <= n <= 4 and (p == 0 or n == 0)


# ---------------------------------------------------------------- H11c immutability surface of a snapshot (enumeration on the solver's paths)

def h11c(which: int, commits_after: int) -> bool:
    """Every mutator reachable from a reader raises and changes nothing, however many commits happen meanwhile."""
    kind = S("zone")
    z = make_zone(kind)
    with z.writer() as w:
        w.add(MARK[0], TXT)
    r = z.reader()
    before = markers_in(r)
    for i in range(commits_after):
        with z.writer() as w:
            w.add(MARK[i + 1], TXT)
    name = MARK[0]
    node = r.get_node(name)
    rds = r.get(name, dns.rdatatype.TXT)
    ver = r.version
    rd = rds[0]
    calls = [
        lambda: r.add(name, 300, rd), lambda: r.replace(name, TXT), lambda: r.delete(name), lambda: r.delete_exact(name),
        lambda: r.update_serial(),
        lambda: ver.nodes.__setitem__(name, None), lambda: ver.nodes.__delitem__(name),
        lambda: setattr(ver, "nodes", {}), lambda: setattr(ver, "id", 99),
        lambda: node.replace_rdataset(TXT), lambda: node.delete_rdataset(dns.rdataclass.IN, dns.rdatatype.TXT),
        lambda: node.find_rdataset(dns.rdataclass.IN, dns.rdatatype.A, create=True),
        lambda: node.rdatasets.append(TXT) if hasattr(node.rdatasets, "append") else (_ for _ in ()).throw(TypeError("tuple")),
        lambda: rds.add(rd), lambda: rds.update(TXT), lambda: rds.union_update(TXT), lambda: rds.intersection_update(TXT),
        lambda: rds.clear(), lambda: rds.update_ttl(1), lambda: rds.__delitem__(0), lambda: rds.__ior__(TXT), lambda: rds.__iand__(TXT),
        lambda: rds.__iadd__(TXT), lambda: rds.__isub__(TXT),
        lambda: setattr(rd, "strings", ()), lambda: setattr(name, "labels", ()),
    ]
    try:
        calls[which]()
        raised = False
    except (TypeError, AttributeError, dns.transaction.ReadOnly, dns.exception.DNSException, KeyError, ValueError, dns.btree.Immutable):
        raised = True
    hit("called")
    if not raised:
        return False
    after = markers_in(r)
    if after != before:
        return False
    r2 = r.get(name, dns.rdatatype.TXT)
    return r2 == TXT and r2.ttl == 300 and len(r.get_node(name).rdatasets) == 1


def h11c_pre(which, commits_after):
    return 0 <= which < 26 and 0 <= commits_after <= 2


def h11c2(which: int, remove: bool) -> bool:
    """Nodes copied because a delegation above them appeared / disappeared are frozen like every other node of a committed version."""
    kind = S("zone")
    z = make_zone(kind)
    sub, glue = dns.name.from_text("sub", None), dns.name.from_text("g.sub", None)
    nsr = dns.rdataset.from_text("IN", "NS", 300, "ns.example.")
    with z.writer() as w:
        w.add(glue, TXT)
        if remove:
            w.add(sub, nsr)
    with z.writer() as w:
        if remove:
            w.delete(sub, dns.rdatatype.NS)
        else:
            w.add(sub, nsr)
    r = z.reader()
    node = r.version.nodes.get(glue)   # the raw node of the frozen version (txn.get_node() would re-wrap it)
    hit("reached")
    if node is None:
        return False
    calls = [
        lambda: node.replace_rdataset(nsr), lambda: node.delete_rdataset(dns.rdataclass.IN, dns.rdatatype.TXT),
        lambda: node.find_rdataset(dns.rdataclass.IN, dns.rdatatype.A, create=True),
        lambda: node.get_rdataset(dns.rdataclass.IN, dns.rdatatype.A, create=True),
        lambda: node.rdatasets.append(nsr) if hasattr(node.rdatasets, "append") else (_ for _ in ()).throw(TypeError("tuple")),
        lambda: node.rdatasets[0].add(TXT[0]) if True else None,
        lambda: setattr(node, "rdatasets", []),
    ]
    try:
        calls[which]()
        raised = False
    except (TypeError, AttributeError, dns.exception.DNSException, KeyError, ValueError):
        raised = True
    if not raised:
        return False
    now = r.get(glue, dns.rdatatype.TXT)
    return now == TXT and len(r.get_node(glue).rdatasets) == 1


def h11c2_pre(which, remove):
    return 0 <= which < 7


def h11c3(store: int, mutate: int, ttl: int) -> bool:
    """A committed version does not alias objects the caller handed to the writer: mutating the caller's own Rdataset / RRset after the
    commit changes neither an open reader's view nor the version a new reader gets."""
    kind = S("zone")
    z = make_zone(kind)
    name = dns.name.from_text("www", None) if store != 1 else dns.name.from_text("fresh", None)
    rds = dns.rdataset.from_text("IN", "A", 300, "10.9.9.1", "10.9.9.2")
    rrs = dns.rrset.from_text_list(name, 300, "IN", "A", ["10.9.9.1", "10.9.9.2"])
    mine = rrs if store == 2 else rds
    with z.writer() as w:
        if store == 0:
            w.replace(name, rds)
        elif store == 1:
            w.add(name, rds)
        else:
            w.replace(rrs)
    r = z.reader()
    before = r.get(name, dns.rdatatype.A)
    want = (before.ttl, sorted([x.to_text() for x in before]))
    hit("committed")
    extra = dns.rdata.from_text("IN", "A", "10.9.9.3")
    if mutate == 0:
        mine.add(extra)
    elif mutate == 1:
        mine.update_ttl(ttl)
    elif mutate == 2:
        mine.discard(mine[0])
    elif mutate == 3:
        mine.clear()
    else:
        mine.union_update(dns.rdataset.from_text("IN", "A", 300, "10.9.9.4"))
    now = r.get(name, dns.rdatatype.A)
    if now is None or (now.ttl, sorted([x.to_text() for x in now])) != want:
        return False
    r2 = z.reader()
    again = r2.get(name, dns.rdatatype.A)
    return again is not None and (again.ttl, sorted([x.to_text() for x in again])) == want


def h11c3_pre(store, mutate, ttl):
    return 0 <= store <= 2 and 0 <= mutate <= 4 and 0 <= ttl <= 1000 and (mutate == 1 or ttl == 0)


HARNESSES = [
    Harness("H11a", h11a, h11a_pre, h11a_shards, kind="finite selection of events, exhaustive",
            encodes=["dns.versioned.Zone.reader", "dns.versioned.Zone._prune_versions_unlocked", "dns.versioned.Zone.set_max_versions",
                     "dns.versioned.Zone.set_pruning_policy", "dns.versioned.Zone._end_read", "dns.versioned.Zone._commit_version_unlocked",
                     "dns.versioned.Zone._get_next_version_id", "dns.zone.ImmutableVersion.__init__", "dns.btreezone.ImmutableVersion.__init__"],
            bound="histories of 3 events (first event per shard) and of 4 events starting with a commit (thorough: all 4-event histories) over open reader latest / by id / by serial, close reader i, commit, rollback, set_max_versions(None,1,2,3), keep-all / drop-all / parity policies; versioned and btree zones; state compared with the reference after every event",
            stubs=["E6"], outside="> 4 events; > 4 simultaneous readers"),
    Harness("H11b", h11b, h11b_pre, lambda tier: [{"zone": z, "k": k, "_timeout": 900, "_path_timeout": 60} for z in ("versioned", "btree") for k in ((2, 3, 4) if tier == "quick" else (2, 3, 4, 5, 6))],
            kind="finite selection, exhaustive",
            encodes=["dns.versioned.Zone._prune_versions_unlocked", "dns.versioned.Zone.set_pruning_policy", "dns.versioned.Zone._end_read"],
            bound="k = 2..4 (6) retained versions, every subset pinned by readers, every policy (max_versions None,1..4 / keep-all / drop-all / parity), then the oldest reader closes",
            stubs=["E6"], outside="k > 6"),
    Harness("H11c", h11c, h11c_pre, lambda tier: [{"zone": z, "_timeout": 600, "_path_timeout": 60} for z in ("versioned", "btree")],
            kind="enumeration carried on the solver's paths (no generalisation claimed)",
            encodes=["dns.zone.ImmutableVersion.__init__", "dns.zone.ImmutableVersionedNode", "dns.rdataset.ImmutableRdataset", "dns.immutable.Dict"],
            bound="26 mutators reachable from a reader (transaction, version, node map, node, rdataset, rdata, name) x 0..2 commits after the reader opened",
            stubs=["E6"], outside="attributes not in the list"),
    Harness("H11c3", h11c3, h11c3_pre, lambda tier: [{"zone": z, "_timeout": 600, "_path_timeout": 60} for z in ("versioned", "btree")],
            kind="finite selection, exhaustive (TTL symbolic)",
            encodes=["dns.zone.ImmutableVersion.__init__", "dns.zone.ImmutableVersionedNode.__init__", "dns.rdataset.ImmutableRdataset.__init__",
                     "dns.node.Node.replace_rdataset", "dns.transaction.Transaction._add"],
            bound="an Rdataset / RRset object stored by replace() or by add() on a new name, committed, then mutated by its owner (add, update_ttl with a symbolic TTL, discard, clear, union_update): the open reader and a new reader still see the committed content",
            stubs=["E6"], outside="other ways of keeping a reference to a stored object"),
    Harness("H11c2", h11c2, h11c2_pre, lambda tier: [{"zone": z, "_timeout": 600, "_path_timeout": 60} for z in ("versioned", "btree")],
            kind="enumeration carried on the solver's paths",
            encodes=["dns.btreezone.WritableVersion.update_glue_flag", "dns.btreezone.ImmutableVersion.__init__", "dns.zone.ImmutableVersion.__init__"],
            bound="a node beneath a name that gains / loses an NS rrset in the last commit; 7 mutators on the raw node of the frozen version", stubs=["E6"], outside=""),
]
