"""C03  Messages survive render-then-parse unchanged; compression is sound."""

import vf.prelude  # noqa: F401
from vf.api import Harness, S, concrete, hit

import dns.edns
import dns.flags
import dns.message
import dns.name
import dns.opcode
import dns.rcode
import dns.rdata
import dns.rdataclass
import dns.rdatatype
import dns.rrset
import dns.update

from harness.oracles import Reject, fold, rdata_names, walk_message

PROPERTY = "C03"
IN = dns.rdataclass.IN


def names_equal(a, b):
    return len(a) == len(b) and all([fold(x) == fold(y) for x, y in zip(a, b)])


def sections_equal(m, p, strict=True):
    """Same rrsets (name, class, type, covers, members) AND the same TTLs in every section.
    strict: library equality of the rrset objects; otherwise equality of what they mean on the wire
    (owner, class as rendered, type, TTL, records)."""
    for s1, s2 in ((m.question, p.question), (m.answer, p.answer), (m.authority, p.authority), (m.additional, p.additional)):
        if len(s1) != len(s2):
            return False
        for a, b in zip(s1, s2):
            if strict:
                if a != b or a.rdclass != b.rdclass or getattr(a, "deleting", None) != getattr(b, "deleting", None):
                    return False
            wc_a = a.deleting if getattr(a, "deleting", None) is not None else a.rdclass
            wc_b = b.deleting if getattr(b, "deleting", None) is not None else b.rdclass
            if a.name != b.name or int(wc_a) != int(wc_b) or a.rdtype != b.rdtype or a.ttl != b.ttl or len(a) != len(b):
                return False
            for rd in a:
                if rd not in b:
                    return False
    return True


def counts_match(wire, m):
    """Header counts equal the records actually present (independent walker) and what the message holds."""
    try:
        w = walk_message(wire)
    except Reject:
        return None
    want = [len(m.question)]
    for sec in (m.answer, m.authority, m.additional):
        n = 0
        for rrset in sec:
            n += max(1, len(rrset))
        want.append(n)
    extra = (1 if m.opt is not None else 0)
    got = list(w["counts"])
    if got[0] != want[0] or got[1] != want[1] or got[2] != want[2] or got[3] != want[3] + extra:
        return None
    return w


# ---------------------------------------------------------------- H03a header and EDNS scalars

def h03a(mid: int, flags: int, rcode: int, version: int, eflags: int, payload: int, optcode: int, optdata: bytes, ttl: int) -> bool:
    """id / flags / opcode / rcode / EDNS version, flags, payload, option and TTLs survive render -> parse; re-render is byte-identical."""
    opcode = S("opcode")
    edns = S("edns")
    m = dns.message.Message(id=mid)
    m.flags = dns.flags.Flag(flags)
    m.set_opcode(dns.opcode.Opcode(opcode))
    with concrete():
        # (the zone section of an UPDATE must be of type SOA)
        q = dns.rrset.RRset(dns.name.from_text("www.example."), IN, dns.rdatatype.SOA if opcode == 5 else dns.rdatatype.A)
        # (update messages are parsed one RR per rrset by design, so they get a single-record rrset)
        a = dns.rrset.from_text("www.example.", 0, "IN", "A", "10.0.0.1", *([] if opcode == 5 else ["10.0.0.2"]))
    a.ttl = ttl
    m.question.append(q)
    m.answer.append(a)
    if edns:
        m.use_edns(version, eflags, payload, options=[dns.edns.GenericOption(optcode, optdata)])
    m.set_rcode(rcode)
    wire = m.to_wire(want_shuffle=False)
    p = dns.message.from_wire(wire)
    hit("parsed")
    if p.id != mid or int(p.flags) != int(m.flags) or int(p.opcode()) != opcode or int(p.rcode()) != rcode:
        return False
    if p.edns != m.edns or p.ednsflags != m.ednsflags or p.payload != m.payload:
        return False
    if edns:
        if p.edns != version or len(p.options) != 1 or int(p.options[0].otype) != optcode or p.options[0].to_wire() != optdata:
            return False
    elif p.opt is not None:
        return False
    if not sections_equal(m, p):
        return False
    if counts_match(wire, m) is None:
        return False
    return p.to_wire(want_shuffle=False) == wire


# Fields whose round trip goes through or/and of two symbolic words (set_rcode, EDNS flag word): z3 returns
# `unknown` on the fully symbolic query, so these are selected (symbolically) from boundary pools instead.
RCODE_POOL = [0, 1, 2, 3, 5, 9, 10, 15, 16, 17, 22, 23, 31, 32, 255, 256, 257, 2048, 4080, 4094, 4095]
VERSION_POOL = [0, 1, 2, 127, 128, 254, 255]
EFLAGS_POOL = [0, 0x8000, 0x4000, 0xFFFF, 0x0001, 0x7FFF, 0x00FF, 0xFF00, 0x8001]


def h03a_pre(mid, flags, rcode, version, eflags, payload, optcode, optdata, ttl):
    # one group of fields is symbolic per shard, the others are pinned (the joint query is too hard for z3)
    vary = S("vary")
    if vary != "id" and mid != 0x1234:
        return False
    if vary != "flags" and flags != 0x8180:
        return False
    if vary != "rcode" and rcode != 3:
        return False
    if vary == "rcode" and rcode not in RCODE_POOL:
        return False
    if vary == "version" and version not in VERSION_POOL:
        return False
    if vary == "eflags" and eflags not in EFLAGS_POOL:
        return False
    if S("edns"):
        if vary != "version" and version != 0:
            return False
        if vary != "eflags" and eflags != 0x8000:
            return False
        if vary != "payload" and payload != 1232:
            return False
        if vary != "option" and not (optcode == 3 and optdata == b"n"):
            return False
    if vary != "ttl" and ttl != 300:
        return False
    ok = 0 <= mid <= 65535 and 0 <= flags <= 65535 and 0 <= ttl <= 2**31 - 1
    if S("edns"):
        # extended rcodes need EDNS; version lives in bits 16-23 of the EDNS flags word
        return (ok and 0 <= rcode <= 4095 and 0 <= version <= 255 and 0 <= eflags <= 65535 and 0 <= payload <= 65535
                and optcode in (3, 12, 65001) and len(optdata) <= 2)
    return ok and 0 <= rcode <= 15 and version == 0 and eflags == 0 and payload == 0 and optcode == 0 and len(optdata) == 0


def h03a_shards(tier):
    ops = (0, 5) if tier == "quick" else range(16)
    out = []
    for o in ops:
        for e in (False, True):
            for vary in ("id", "flags", "rcode", "ttl") + (("version", "eflags", "payload", "option") if e else ()):
                # (the 16-bit flags word through set_rcode / EDNS is one path with 100-250 s of solver time)
                out.append({"opcode": o, "edns": e, "vary": vary, "_timeout": 1500 if vary == "flags" else 900, "_path_timeout": 400 if vary == "flags" else 120})
    return out


# ---------------------------------------------------------------- H03b sharing patterns: compression soundness

def h03b(a0: int, a1: int, b0: int, b1: int, c0: int, t0: int, t1: int, rel: bool) -> bool:
    """Owner / rdata names built from symbolic labels (solver decides which suffixes coincide): an independent decoder recovers every name; parse == original; re-render identical."""
    origin = dns.name.Name([b"ex", b""])
    n1 = dns.name.Name([bytes([a0]), bytes([a1])] + ([] if rel else [b"ex", b""]))
    n2 = dns.name.Name([bytes([b0]), bytes([b1])] + ([] if rel else [b"ex", b""]))
    n3 = dns.name.Name([bytes([c0])] + ([] if rel else [b"ex", b""]))
    m = dns.message.Message(id=7)
    m.flags = dns.flags.QR
    with concrete():
        pass
    m.question.append(dns.rrset.RRset(n1, IN, dns.rdatatype.MX))
    mx = dns.rdata.from_wire(IN, dns.rdatatype.MX, b"\x00\x0a" + n2.to_wire(origin=origin), 0, 2 + len(n2.to_wire(origin=origin)), origin if rel else None)
    ns = dns.rdata.from_wire(IN, dns.rdatatype.NS, n3.to_wire(origin=origin), 0, len(n3.to_wire(origin=origin)), origin if rel else None)
    r1 = dns.rrset.RRset(n1, IN, dns.rdatatype.MX)
    r1.add(mx, t0)
    r2 = dns.rrset.RRset(n2 if S("layout") == 0 else n3, IN, dns.rdatatype.NS)
    r2.add(ns, t1)
    m.answer.append(r1)
    [m.authority, m.additional, m.answer][S("layout") % 3].append(r2)
    if r1 == r2:
        return True
    wire = m.to_wire(origin=origin if rel else None, want_shuffle=False)
    w = counts_match(wire, m)
    if w is None:
        return False
    hit("rendered")
    # every owner and every embedded name decodes (independent pointer follower) to the right name
    absn = lambda n: list(n.derelativize(origin).labels)  # noqa: E731
    flat = [r for s in (1, 2, 3) for r in w["sections"][s]]
    if len(flat) != 2 or not names_equal(w["sections"][0][0][0], absn(n1)):
        return False
    if not names_equal(flat[0][0], absn(n1)) or not names_equal(flat[1][0], absn(r2.name)):
        return False
    if not names_equal(rdata_names(wire, 15, flat[0][4], flat[0][5])[0], absn(n2)):
        return False
    if not names_equal(rdata_names(wire, 2, flat[1][4], flat[1][5])[0], absn(n3)):
        return False
    if flat[0][3] != t0 or flat[1][3] != t1:
        return False
    p = dns.message.from_wire(wire, origin=origin if rel else None)
    if not sections_equal(m, p):
        return False
    return p.to_wire(origin=origin if rel else None, want_shuffle=False) == wire


def h03b_pre(a0, a1, b0, b1, c0, t0, t1, rel):
    free = S("free")  # which of the five label octets are symbolic in this shard; the others are pinned
    pins = {"a0": 120, "a1": 121, "b0": 120, "b1": 121, "c0": 121}
    vals = {"a0": a0, "a1": a1, "b0": b0, "b1": b1, "c0": c0}
    for k in pins:
        if k not in free and vals[k] != pins[k]:
            return False
    return all([0 <= x <= 255 for x in (a0, a1, b0, b1, c0)]) and 0 <= t0 <= 2**31 - 1 and 0 <= t1 <= 2**31 - 1


# ---------------------------------------------------------------- H03d dynamic update forms

POOL_NAMES = ["a.example.", "b.example.", "example."]
# (no embedded names: UpdateMessage relativizes names parsed from text to the zone origin, and the equality
# clause of C03 is stated for messages that use absolute names)
POOL_RD = [("A", "10.0.0.1"), ("A", "10.0.0.2"), ("TXT", '"x"'), ("TXT", '"y" "z"')]


def h03d(o1: int, n1: int, r1: int, o2: int, n2: int, r2: int, ttl: int) -> bool:
    """UpdateMessage built through add / delete / replace / present / absent renders and parses back to equal sections (ANY / NONE classes, counts), and re-renders identically."""
    zclass = dns.rdataclass.from_text(S("zclass") or "IN")
    u = dns.update.UpdateMessage("example.", rdclass=zclass, id=9)
    for o, n, r in ((o1, n1, r1), (o2, n2, r2))[:S("n")]:
        name = POOL_NAMES[n]
        t, txt = POOL_RD[r]
        if o == 0:
            u.add(name, ttl, t, txt)
        elif o == 1:
            u.delete(name)
        elif o == 2:
            u.delete(name, t)
        elif o == 3:
            u.delete(name, t, txt)
        elif o == 4:
            u.replace(name, ttl, t, txt)
        elif o == 5:
            u.present(name)
        elif o == 6:
            u.present(name, t)
        elif o == 7:
            u.present(name, t, txt)
        elif o == 8:
            u.absent(name)
        else:
            u.absent(name, t)
    wire = u.to_wire(want_shuffle=False)
    p = dns.message.from_wire(wire)
    hit("parsed")
    if not isinstance(p, dns.update.UpdateMessage) or int(p.opcode()) != 5:
        return False
    if not sections_equal(u, p, strict=S("strict")):
        return False
    # RFC 2136: whatever class a record carries on the wire (zone class, ANY, NONE), it belongs to the zone's class
    if p.zone[0].rdclass != zclass:
        return False
    for sec in (p.prerequisite, p.update):
        for rr in sec:
            if rr.rdclass != zclass:
                return False
    if counts_match(wire, u) is None:
        return False
    return p.to_wire(want_shuffle=False) == wire


def h03d_pre(o1, n1, r1, o2, n2, r2, ttl):
    if (S("zclass") or "IN") != "IN" and (r1 < 2 or (S("n") == 2 and r2 < 2)):
        return False  # class-independent record types only (TXT) outside class IN
    ok = 0 <= o1 <= 9 and 0 <= n1 <= 2 and 0 <= r1 <= 3 and 0 <= ttl <= 2**31 - 1
    if S("n") == 2:
        return ok and 0 <= o2 <= 9 and 0 <= n2 <= 2 and 0 <= r2 <= 3 and o1 == S("o1")
    return ok and o2 == 0 and n2 == 0 and r2 == 0


CLASSLESS_FORMS = (1, 5, 6, 8, 9)  # delete(name), present(name), present(name, type), absent(name), absent(name, type)


def h03d_shards(tier):
    out = []
    for strict in (True, False):
        out.append({"n": 1, "o1": None, "strict": strict, "_timeout": 900, "_path_timeout": 60})
        for o1 in ((0, 3, 7) if tier == "quick" else range(10)):
            out.append({"n": 2, "o1": o1, "strict": strict, "_timeout": 1200, "_path_timeout": 60})
        # a zone in another class (CH): the ANY / NONE forms must still come back in the zone's class
        out.append({"n": 1, "o1": None, "strict": strict, "zclass": "CH", "_timeout": 900, "_path_timeout": 60})
        if tier == "thorough":
            for o1 in range(10):
                out.append({"n": 2, "o1": o1, "strict": strict, "zclass": "CH", "_timeout": 1200, "_path_timeout": 60})
    return out


# ---------------------------------------------------------------- H03e empty vs non-empty rrsets per section

def h03e(e1: bool, e2: bool, e3: bool, ttl: int) -> bool:
    """An empty rrset renders as one class/type-only RR (as in update prerequisites); counts stay exact; non-empty ones round-trip."""
    m = dns.message.Message(id=3)
    m.flags = dns.flags.QR
    with concrete():
        m.question.append(dns.rrset.RRset(dns.name.from_text("www.example."), IN, dns.rdatatype.A))
    secs = [m.answer, m.authority, m.additional]
    for i, empty in enumerate((e1, e2, e3)):
        rr = dns.rrset.RRset(dns.name.from_text("n%d.example." % i), IN, dns.rdatatype.A)
        if not empty:
            rr.add(dns.rdata.from_text("IN", "A", "10.0.0.%d" % (i + 1)), ttl)
        secs[i].append(rr)
    wire = m.to_wire(want_shuffle=False)
    w = counts_match(wire, m)
    hit("rendered")
    if w is None:
        return False
    for i, empty in enumerate((e1, e2, e3)):
        rr = w["sections"][i + 1][0]
        if empty and len(rr[5]) != 0:
            return False
        if not empty and (len(rr[5]) != 4 or rr[3] != ttl):
            return False
    return True


def h03e_pre(e1, e2, e3, ttl):
    return 0 <= ttl <= 2**31 - 1


def h03c(a0: int, a1: int, b0: int, b1: int, c0: int, pad: int, shared: bool) -> bool:
    """Names written through one compression table around offset 0x3FFF (as in a message larger than 16 KiB): no table entry and no
    pointer beyond 0x3FFF, every name decodes back (C01.h01d, DNS-equal comparison)."""
    import harness.C01 as C01

    return C01.h01d(a0, a1, b0, b1, c0, pad, shared)


def h03c_pre(a0, a1, b0, b1, c0, pad, shared):
    import harness.C01 as C01

    return C01.h01d_pre(a0, a1, b0, b1, c0, pad, shared)


def h03f(max_size: int, l0: int, l1: int) -> bool:
    """After a record set was rolled back for size, every pointer emitted later still targets an earlier occurrence of exactly that suffix (independent walker)."""
    import harness.C08 as C08

    return C08.h08c(max_size, l0, l1)


def h03f_pre(max_size, l0, l1):
    import harness.C08 as C08

    return C08.h08c_pre(max_size, l0, l1)


HARNESSES = [
    Harness("H03a", h03a, h03a_pre, h03a_shards, kind="universal",
            encodes=["dns.message.Message.to_wire", "dns.renderer.Renderer.write_header", "dns.renderer.Renderer.add_opt", "dns.message.Message.use_edns",
                     "dns.message.Message.set_rcode", "dns.message.Message.set_opcode", "dns.rcode.from_flags", "dns.rcode.to_flags",
                     "dns.opcode.from_flags", "dns.opcode.to_flags", "dns.message._WireReader.read", "dns.message._WireReader._get_section",
                     "dns.rdataset.Rdataset.to_wire"],
            bound="one field symbolic per shard, the rest pinned: id (16 bit) | flags (16 bit) | rcode (21 boundary values up to 4095; finite selection) | answer TTL (0..2^31-1) | EDNS version (7 boundary values; finite selection) | EDNS flags (9 values; finite selection) | payload (16 bit) | one option (3 codes, <= 2 octets); opcode per shard (quick QUERY, UPDATE; thorough 0..15)",
            stubs=["E1", "E5", "E6", "E8", "E12"], outside="several options; TSIG (C14)"),
    Harness("H03b", h03b, h03b_pre, lambda tier: [{"layout": i, "free": f, "_timeout": 1500, "_path_timeout": 60} for i in ((0, 1) if tier == "quick" else (0, 1, 2))
                                                   for f in ((["a1", "b1", "c0"], ["a0", "b0", "b1"], ["a0", "a1", "c0"]) if tier == "quick" else
                                                             (["a1", "b1", "c0"], ["a0", "b0", "b1"], ["a0", "a1", "c0"], ["a0", "a1", "b0", "b1"], ["a1", "b0", "b1", "c0"]))],
            kind="universal", encodes=["dns.name.Name.to_wire", "dns.renderer.Renderer.add_rrset", "dns.renderer.Renderer.add_question",
                                       "dns.rdtypes.mxbase.MXBase._to_wire", "dns.rdtypes.nsbase.NSBase._to_wire", "dns.message.Message.find_rrset"],
            bound="question + MX rrset + NS rrset whose owner / target names are 1-2 one-octet labels over ex.; 3 of the 5 label octets symbolic per shard (thorough: 4), the others pinned to values that coincide (every coincidence pattern among the free octets and with the pinned ones, incl. case-only); 2 (3) section layouts; relative names with origin or absolute; TTLs symbolic",
            stubs=["E1", "E5", "E6", "E8"], outside="> 3 names; other rdata types (their wire form is C02)"),
    Harness("H03d", h03d, h03d_pre, h03d_shards, kind="finite selection with universal TTL",
            encodes=["dns.update.UpdateMessage.add", "dns.update.UpdateMessage.delete", "dns.update.UpdateMessage.replace", "dns.update.UpdateMessage.present",
                     "dns.update.UpdateMessage.absent", "dns.update.UpdateMessage._parse_rr_header", "dns.update.UpdateMessage._parse_special_rr_header",
                     "dns.rdataset.Rdataset.to_wire"],
            bound="zone class IN (and CH with TXT records); 1 symbolic update operation (10 kinds x 3 names x 4 records), and 2 operations with the first from {add, delete rdata, present rdata} (thorough: all); TTL symbolic",
            stubs=["E1", "E5", "E6", "E8"], outside="longer update scripts"),
    Harness("H03c", h03c, h03c_pre, lambda tier: [{"names": n, "pad": (0x3FF6, 0x4001), "strict": False, "_timeout": 400 if n == 2 else 2400, "_path_timeout": 60} for n in ((2,) if tier == "quick" else (2, 3))],
            kind="universal", encodes=["dns.name.Name.to_wire", "dns.name.from_wire_parser"],
            bound="2 (3) names of two one-octet symbolic labels over a shared or private suffix written at start offsets 0x3FF6..0x4001 (every suffix position crosses 0x3FFF)",
            stubs=["E1", "E6"], outside="whole 16 KiB messages (the renderer uses this very routine for every name)"),
    Harness("H03f", h03f, h03f_pre, lambda tier: [{"_timeout": 900, "_path_timeout": 60}], kind="universal",
            encodes=["dns.renderer.Renderer._rollback", "dns.renderer.Renderer._track_size", "dns.name.Name.to_wire"],
            bound="Renderer: question, a 400-octet rrset that may overflow, then a small rrset of the same owner whose rdata name ends in it; max_size symbolic 30..600, two symbolic owner labels",
            stubs=["E1", "E6"], outside="longer sequences"),
    Harness("H03e", h03e, h03e_pre, lambda tier: [{"_timeout": 300}], kind="finite selection",
            encodes=["dns.rdataset.Rdataset.to_wire", "dns.rrset.RRset.to_wire"],
            bound="empty / non-empty rrset in each of the three RR sections (8 combinations), TTL symbolic", stubs=["E1", "E8"], outside=""),
]
