"""C19  The copy-on-write B-tree is a correct sorted map with isolated clones."""

import vf.prelude  # noqa: F401
from vf.api import Harness, S, hit

import dns.btree

PROPERTY = "C19"


# ---------------------------------------------------------------- concrete pre-state family

def build(spec):
    """spec = (t, n, order, dels, in_order) -> (tree, sorted list of [key, value])."""
    t, n, order, dels, in_order = spec
    d = dns.btree.BTreeDict(t=t, in_order=in_order)
    keys = [10 * i for i in range(n)]
    if order == "desc":
        ins = list(reversed(keys))
    elif order == "zig":
        ins = []
        lo, hi = 0, n - 1
        while lo <= hi:
            ins.append(keys[lo])
            if lo != hi:
                ins.append(keys[hi])
            lo += 1
            hi -= 1
    else:
        ins = list(keys)
    for k in ins:
        d[k] = k + 1
    gone = []
    if dels == "first":
        gone = keys[:1]
    elif dels == "third":
        gone = keys[::3]
    elif dels == "tail":
        gone = keys[n // 2:]
    elif dels == "head":
        gone = keys[:n // 2]
    for k in gone:
        del d[k]
    model = [[k, k + 1] for k in keys if k not in gone]
    return d, model


def specs(tier):
    out = []
    if tier == "quick":
        for n in (0, 2, 5, 6, 8, 12, 18):
            for order in ("asc", "zig"):
                for dels in ("none", "first", "third"):
                    for in_order in (False, True):
                        if n == 0 and (order != "asc" or dels != "none"):
                            continue
                        out.append((3, n, order, dels, in_order))
        out += [(4, 8, "asc", "none", False), (4, 16, "desc", "third", True), (4, 24, "zig", "first", False)]
    else:
        for t in (3, 4):
            for n in (0, 1, 2, 5, 6, 7, 8, 11, 12, 17, 18, 26):
                for order in ("asc", "desc", "zig"):
                    for dels in ("none", "first", "third", "tail", "head"):
                        for in_order in (False, True):
                            if n == 0 and (order != "asc" or dels != "none"):
                                continue
                            out.append((t, n, order, dels, in_order))
    return out


# ---------------------------------------------------------------- oracle + invariants

def model_find(model, key):
    """(index of first element with key >= `key`, found?)"""
    for i in range(len(model)):
        if model[i][0] == key:
            return i, True
        if model[i][0] > key:
            return i, False
    return len(model), False


def model_apply(model, op, key, val):
    i, found = model_find(model, key)
    if op == 0:  # insert / replace
        if found:
            model[i] = [key, val]
        else:
            model.insert(i, [key, val])
    elif op == 1 or op == 2:  # delete
        if found:
            del model[i]
    return found


def items(tree):
    out = []
    tree.visit_in_order(lambda e: out.append([e.key(), e.value()]))
    return out


def invariants(tree):
    """Occupancy, uniform leaf depth, child counts, sorted keys, separator ordering."""
    t = tree.t
    depths = []

    def walk(node, depth, is_root, lo, hi):
        n = len(node.elts)
        if n > 2 * t - 1:
            return False
        if not is_root and n < t - 1:
            return False
        ks = [e.key() for e in node.elts]
        for a, b in zip(ks, ks[1:]):
            if not a < b:
                return False
        if ks:
            if lo is not None and not lo < ks[0]:
                return False
            if hi is not None and not ks[-1] < hi:
                return False
        if node.is_leaf:
            if node.children:
                return False
            depths.append(depth)
            return True
        if len(node.children) != n + 1:
            return False
        for i, ch in enumerate(node.children):
            clo = lo if i == 0 else ks[i - 1]
            chi = hi if i == n else ks[i]
            if not walk(ch, depth + 1, False, clo, chi):
                return False
        return True

    if not walk(tree.root, 0, True, None, None):
        return False
    return all([d == depths[0] for d in depths])


def agrees(tree, model):
    if len(tree) != len(model):
        return False
    if items(tree) != model:
        return False
    if [k for k in tree] != [kv[0] for kv in model]:
        return False
    return invariants(tree)


def do_op(tree, op, key, val):
    if op == 0:
        tree[key] = val
    elif op == 1:
        tree.delete_key(key)
    else:
        elt = tree.get_element(key)
        if elt is not None:
            got = tree.delete_exact(elt)
            if got is not elt:
                return False
    return True


# ---------------------------------------------------------------- H19a one/two symbolic operations from every family state

def h19a(op1: int, k1: int, op2: int, k2: int) -> bool:
    """After symbolic insert/replace/delete/delete_exact the tree equals the sorted-list model and keeps its shape invariants."""
    tree, model = build(tuple(S("spec")))
    if not do_op(tree, op1, k1, 7001):
        return False
    model_apply(model, op1, k1, 7001)
    if S("ops") == 2:
        if not do_op(tree, op2, k2, 7002):
            return False
        model_apply(model, op2, k2, 7002)
    hit("applied")
    if not agrees(tree, model):
        return False
    return lookups_agree(tree, model, [k1, k2, k1 + 1, k1 - 1])


def lookups_agree(tree, model, extra):
    """get_element / __getitem__ / __contains__-style lookups for every stored key and the given probes."""
    for k, v in model:
        e = tree.get_element(k)
        if e is None or e.value() != v:
            return False
    for probe in extra:
        i, found = model_find(model, probe)
        e = tree.get_element(probe)
        if found:
            if e is None or e.value() != model[i][1]:
                return False
        elif e is not None:
            return False
    return True


def h19a_pre(op1, k1, op2, k2):
    n = S("spec")[1]
    hi = 10 * n + 5
    ok = 0 <= op1 <= 2 and -5 <= k1 <= hi
    if S("ops") == 2:
        return ok and 0 <= op2 <= 2 and -5 <= k2 <= hi
    return ok and op2 == 0 and k2 == 0


def h19a_shards(tier):
    out = [{"spec": sp, "ops": 1, "_timeout": 300, "_path_timeout": 60} for sp in specs(tier)]
    two = [(3, 5, "asc", "none", False), (3, 6, "zig", "first", True), (3, 8, "asc", "third", False)]
    if tier == "thorough":
        two += [(3, 12, "zig", "none", True), (4, 8, "desc", "none", False), (3, 11, "asc", "head", True), (4, 16, "zig", "third", True)]
    out += [{"spec": sp, "ops": 2, "_timeout": 900, "_path_timeout": 60} for sp in two]
    return out


# ---------------------------------------------------------------- H19b cursors

def model_seek(model, key, before):
    i, found = model_find(model, key)
    if before or not found:
        return i
    return i + 1


def h19b(key: int, before: bool, moves: int) -> bool:
    """cursor.seek(key, before) followed by <= 3 next/prev steps visits exactly the neighbours in the sorted list."""
    tree, model = build(tuple(S("spec")))
    cur = tree.cursor()
    cur.seek(key, before)
    p = model_seek(model, key, before)
    m = moves
    for _ in range(3):
        step = m % 3
        m //= 3
        if step == 0:
            continue
        if step == 1:
            e = cur.next()
            want = model[p] if p < len(model) else None
            if want is not None:
                p += 1
        else:
            e = cur.prev()
            want = model[p - 1] if p > 0 else None
            if want is not None:
                p -= 1
        if want is None:
            if e is not None:
                return False
        elif e is None or e.key() != want[0] or e.value() != want[1]:
            return False
    hit("walked")
    return True


def h19b_pre(key, before, moves):
    n = S("spec")[1]
    return -5 <= key <= 10 * n + 5 and 0 <= moves < 27


def h19b_shards(tier):
    sp = [(3, 0, "asc", "none", False), (3, 3, "asc", "none", False), (3, 8, "asc", "none", False), (3, 12, "zig", "third", True),
          (3, 18, "asc", "none", False)]
    if tier == "thorough":
        sp += [(4, 26, "desc", "third", False), (3, 26, "zig", "none", True), (4, 12, "asc", "head", True)]
    return [{"spec": s, "_timeout": 600, "_path_timeout": 60} for s in sp]


def h19b2(key: int, before: bool, op: int, mkey: int) -> bool:
    """A registered cursor kept open across one mutation continues from the right element (park / unpark)."""
    tree, model = build(tuple(S("spec")))
    d1, d2 = S("d1"), S("d2")
    with tree.cursor() as cur:
        cur.seek(key, before)
        p = model_seek(model, key, before)
        anchor, read, increasing = key, False, before
        boundary = None
        if d1 == 1:
            e = cur.next()
            want = model[p] if p < len(model) else None
            if (e is None) != (want is None) or (e is not None and e.key() != want[0]):
                return False
            if want is None:
                boundary = "right"
            else:
                p += 1
                anchor, read, increasing = want[0], True, True
        elif d1 == 2:
            e = cur.prev()
            want = model[p - 1] if p > 0 else None
            if (e is None) != (want is None) or (e is not None and e.key() != want[0]):
                return False
            if want is None:
                boundary = "left"
            else:
                p -= 1
                anchor, read, increasing = want[0], True, False
        if not do_op(tree, op, mkey, 7001):
            return False
        model_apply(model, op, mkey, 7001)
        # where the documentation says the cursor now is
        if boundary == "left":
            p = 0
        elif boundary == "right":
            p = len(model)
        else:
            i, found = model_find(model, anchor)
            after = (read and increasing) or (not read and not increasing)
            p = i + 1 if (after and found) else i
        if d2 == 1:
            e = cur.next()
            want = model[p] if p < len(model) else None
        else:
            e = cur.prev()
            want = model[p - 1] if p > 0 else None
        hit("resumed")
        if want is None:
            return e is None
        return e is not None and e.key() == want[0] and e.value() == want[1]


def h19b2_pre(key, before, op, mkey):
    n = S("spec")[1]
    return -5 <= key <= 10 * n + 5 and -5 <= mkey <= 10 * n + 5 and 0 <= op <= 2


def h19b2_shards(tier):
    sp = [(3, 6, "asc", "none", False)] + ([(3, 8, "zig", "first", True), (4, 12, "asc", "none", False)] if tier == "thorough" else [])
    return [{"spec": s, "d1": d1, "d2": d2, "_timeout": 900, "_path_timeout": 60} for s in sp for d1 in (0, 1, 2) for d2 in (1, 2)]


# ---------------------------------------------------------------- H19c clone isolation, frozen trees

def node_ids(tree):
    out = []
    tree._visit_preorder_by_node(lambda n: out.append((id(n), len(n.elts), len(n.children))))
    return out


def h19c(op1: int, k1: int, op2: int, k2: int) -> bool:
    """Mutating a clone is invisible through the frozen original and through another clone; a frozen tree refuses mutation."""
    orig, model = build(tuple(S("spec")))
    orig.make_immutable()
    snap_items = items(orig)
    snap_nodes = node_ids(orig)
    c1 = dns.btree.BTreeDict(original=orig, in_order=S("spec")[4])
    c2 = dns.btree.BTreeDict(original=orig, in_order=S("spec")[4])
    m1 = [list(x) for x in model]
    if not do_op(c1, op1, k1, 7001):
        return False
    model_apply(m1, op1, k1, 7001)
    if S("ops") == 2:
        if not do_op(c1, op2, k2, 7002):
            return False
        model_apply(m1, op2, k2, 7002)
    hit("mutated")
    if not agrees(c1, m1):
        return False
    if items(orig) != snap_items or node_ids(orig) != snap_nodes or not agrees(orig, model):
        return False
    if not agrees(c2, model):
        return False
    # the other clone can still be mutated independently
    c2[k1] = 1
    if items(orig) != snap_items or not agrees(c1, m1):
        return False
    for f in (lambda: orig.__setitem__(k1, 0), lambda: orig.delete_key(k1), lambda: orig.insert_element(dns.btree.KV(k1, 0))):
        try:
            f()
            return False
        except dns.btree.Immutable:
            pass
    return items(orig) == snap_items


def h19c_shards(tier):
    out = [{"spec": sp, "ops": 1, "_timeout": 300, "_path_timeout": 60} for sp in specs(tier)]
    two = [(3, 6, "zig", "first", True), (3, 8, "asc", "first", True)]
    if tier == "thorough":
        two += [(3, 12, "zig", "none", True), (4, 8, "desc", "none", False), (3, 11, "asc", "head", True)]
    out += [{"spec": sp, "ops": 2, "_timeout": 900, "_path_timeout": 60} for sp in two]
    return out


ENC = ["dns.btree._Node.search_in_node", "dns.btree._Node.insert_nonfull", "dns.btree._Node.split", "dns.btree._Node.adopt",
       "dns.btree._Node.optimize_in_order_insertion", "dns.btree._Node.delete", "dns.btree._Node.balance",
       "dns.btree._Node.try_left_steal", "dns.btree._Node.try_right_steal", "dns.btree._Node.merge",
       "dns.btree._Node.maybe_cow", "dns.btree._Node.maybe_cow_child", "dns.btree._Node.clone",
       "dns.btree.BTree.insert_element", "dns.btree.BTree._delete", "dns.btree.BTree.delete_exact"]

HARNESSES = [
    Harness("H19a", h19a, h19a_pre, h19a_shards, kind="universal over keys, finite over pre-states",
            encodes=ENC, bound="every state of a family of concretely built trees (t in {3,4}, 0..26 keys, asc/desc/zig-zag insertion, deletions of first/every-third/half, in_order on/off: 78 states quick, 1400 thorough) + 1 symbolic operation (2 on 3 / 7 states) with symbolic integer keys anywhere between/at/outside the stored keys",
            stubs=[], outside="trees deeper than 3, t > 4, histories longer than family state + 2"),
    Harness("H19b", h19b, h19b_pre, h19b_shards, kind="universal over keys",
            encodes=["dns.btree.Cursor.seek", "dns.btree.Cursor.next", "dns.btree.Cursor.prev", "dns.btree.Cursor._seek_least",
                     "dns.btree.Cursor._seek_greatest"],
            bound="5 (8) trees up to depth 3; symbolic seek key and side; every sequence of <= 3 next/prev steps", stubs=[],
            outside="longer walks"),
    Harness("H19b2", h19b2, h19b2_pre, h19b2_shards, kind="universal over keys",
            encodes=["dns.btree.Cursor.park", "dns.btree.Cursor._maybe_unpark", "dns.btree.BTree._check_mutable_and_park",
                     "dns.btree.Cursor.seek", "dns.btree.Cursor.next", "dns.btree.Cursor.prev"],
            bound="1 (3) trees; seek(symbolic key, side), optional step, one symbolic mutation (op, key), one step", stubs=[],
            outside="several mutations while parked"),
    Harness("H19c", h19c, None, h19c_shards, kind="universal over keys, finite over pre-states",
            encodes=ENC + ["dns.btree.BTree.make_immutable", "dns.btree.BTree._check_mutable_and_park", "dns.btree.BTree.__init__"],
            bound="same state family, frozen; two clones; 1 (2) symbolic operations on one clone; item list and node identity set of the original compared",
            stubs=[], outside="chains of clones of clones"),
]


def _h19c_pre(op1, k1, op2, k2):
    n = S("spec")[1]
    hi = 10 * n + 5
    ok = 0 <= op1 <= 2 and -5 <= k1 <= hi
    if S("ops") == 2:
        return ok and 0 <= op2 <= 2 and -5 <= k2 <= hi
    return ok and op2 == 0 and k2 == 0


HARNESSES[3].pre = _h19c_pre
