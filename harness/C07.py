"""C07  Records and record sets have value semantics and exact set algebra."""

import copy

import vf.prelude  # noqa: F401
from vf.api import Harness, S, concrete, hit
from vf.prelude import REAL_NAME_HASH, REAL_RDATA_HASH

import dns.exception
import dns.name
import dns.rdata
import dns.rdataclass
import dns.rdataset
import dns.rdatatype
import dns.rrset
import dns.set

from harness.oracles import fold, ref_name_from_wire

PROPERTY = "C07"
IN = dns.rdataclass.IN

# ---------------------------------------------------------------- H07a dns.set.Set vs list-based set theory


def uniq(xs):
    out = []
    for x in xs:
        if x not in out:
            out.append(x)
    return out


OPS = ["union", "intersection", "difference", "symmetric_difference", "union_update", "intersection_update", "difference_update",
       "symmetric_difference_update", "update", "or", "and", "sub", "xor", "add", "ior", "iand", "isub", "ixor", "iadd",
       "issubset", "issuperset", "isdisjoint", "eq"]


def ref_op(op, a, b):
    a, b = uniq(a), uniq(b)
    if op in ("union", "union_update", "update", "or", "add", "ior", "iadd"):
        return a + [x for x in b if x not in a]
    if op in ("intersection", "intersection_update", "and", "iand"):
        return [x for x in a if x in b]
    if op in ("difference", "difference_update", "sub", "isub"):
        return [x for x in a if x not in b]
    return [x for x in a if x not in b] + [x for x in b if x not in a]


def h07a(a0: int, a1: int, a2: int, b0: int, b1: int, b2: int) -> bool:
    """Every Set operation (copying, in-place, operator forms, aliased operands) equals set theory with first-insertion order."""
    la, lb, op, alias = S("la"), S("lb"), S("op"), S("alias")
    xs = [a0, a1, a2][:la]
    ys = xs if alias else [b0, b1, b2][:lb]
    A = dns.set.Set(xs)
    B = A if alias else dns.set.Set(ys)
    ua, ub = uniq(xs), uniq(ys)
    if list(A) != ua or len(A) != len(ua):
        return False
    hit("built")
    if op == "issubset":
        return A.issubset(B) == all([x in ub for x in ua])
    if op == "issuperset":
        return A.issuperset(B) == all([y in ua for y in ub])
    if op == "isdisjoint":
        return A.isdisjoint(B) == (not any([x in ub for x in ua]))
    if op == "eq":
        want = len(ua) == len(ub) and all([x in ub for x in ua])
        return (A == B) == want and (A != B) == (not want)
    want = ref_op(op, xs, ys)
    if op in ("union", "intersection", "difference", "symmetric_difference"):
        R = getattr(A, op)(B)
        inplace = False
    elif op in ("or", "and", "sub", "xor", "add"):
        R = {"or": lambda: A | B, "and": lambda: A & B, "sub": lambda: A - B, "xor": lambda: A ^ B, "add": lambda: A + B}[op]()
        inplace = False
    elif op in ("ior", "iand", "isub", "ixor", "iadd"):
        R = A
        if op == "ior":
            R |= B
        elif op == "iand":
            R &= B
        elif op == "isub":
            R -= B
        elif op == "ixor":
            R ^= B
        else:
            R += B
        inplace = True
        if R is not A:
            return False
    else:
        getattr(A, op)(B)
        R = A
        inplace = True
    # same elements; first-insertion order where the operation defines one (every op except symmetric difference's tail)
    got = list(R)
    if len(got) != len(want) or not all([x in got for x in want]):
        return False
    if op not in ("symmetric_difference", "symmetric_difference_update", "xor", "ixor") and got != want:
        return False
    if not inplace:
        # copying forms leave both operands unchanged and return a new object
        if R is A or list(A) != ua or list(B) != ub:
            return False
    elif not alias and list(B) != ub:
        return False
    return True


def h07a_pre(a0, a1, a2, b0, b1, b2):
    la, lb = S("la"), S("lb")
    v = [a0, a1, a2, b0, b1, b2]
    used = [True] * la + [False] * (3 - la) + ([True] * lb + [False] * (3 - lb) if not S("alias") else [False] * 3)
    for x, u in zip(v, used):
        if u:
            if not (0 <= x <= 2):
                return False
        elif x != 0:
            return False
    return True


def h07a_shards(tier):
    out = []
    top = 2 if tier == "quick" else 3
    for op in OPS:
        for la in range(0, top + 1):
            for lb in range(0, top + 1):
                out.append({"op": op, "la": la, "lb": lb, "alias": False, "_timeout": 300, "_path_timeout": 30})
            out.append({"op": op, "la": la, "lb": 0, "alias": True, "_timeout": 300, "_path_timeout": 30})
    return out


# ---------------------------------------------------------------- H07b Rdataset / RRset algebra

def _rd(t, text):
    return dns.rdata.from_text(IN, t, text)


POOL_A = [_rd("A", "10.0.0.%d" % i) for i in range(1, 5)]
POOL_MX = [_rd("MX", "10 Mail.Example."), _rd("MX", "10 mail.example."), _rd("MX", "20 mail.example."), _rd("MX", "10 other.example.")]
POOL_CNAME = [_rd("CNAME", "a.example."), _rd("CNAME", "b.example."), _rd("CNAME", "A.example.")]
POOL_SOA = [_rd("SOA", "m. r. 1 2 3 4 5"), _rd("SOA", "m. r. 2 2 3 4 5")]
POOL_RRSIG = [_rd("RRSIG", "A 1 2 3600 20200101000000 20030101000000 2143 s.example. AQID"),
              _rd("RRSIG", "MX 1 2 3600 20200101000000 20030101000000 2143 s.example. AQID"),
              _rd("RRSIG", "A 1 2 3600 20200101000000 20030101000000 2144 s.example. AQID")]
POOLS = {"A": POOL_A, "MX": POOL_MX, "CNAME": POOL_CNAME, "SOA": POOL_SOA, "RRSIG": POOL_RRSIG}
# equality classes inside the pools (indices that are equal records)
EQCLASS = {"A": [0, 1, 2, 3], "MX": [0, 0, 2, 3], "CNAME": [0, 1, 0], "SOA": [0, 1], "RRSIG": [0, 1, 2]}
SINGLETON = ("CNAME", "SOA")


def build(kind, mask, ttl, covers=None):
    pool = POOLS[kind]
    t = dns.rdatatype.from_text(kind)
    rds = dns.rdataset.Rdataset(IN, t)
    members = []
    for i in range(len(pool)):
        if (mask >> i) % 2 == 1:
            try:
                rds.add(pool[i], ttl)
            except dns.rdataset.DifferingCovers:
                continue
            cls = EQCLASS[kind][i]
            if kind in SINGLETON:
                members = [cls]
            elif cls not in members:
                members.append(cls)
    return rds, members


def classes_of(kind, rds):
    pool = POOLS[kind]
    out = []
    for rd in rds:
        found = None
        for i in range(len(pool)):
            if pool[i] == rd:
                found = EQCLASS[kind][i]
                break
        if found is None:
            return None
        out.append(found)
    return out


def h07b(m1: int, m2: int, t1: int, t2: int) -> bool:
    """Rdataset operations: contents = set theory over record equality classes, TTL = minimum of merged TTLs, singletons keep the newest."""
    kind, op = S("kind"), S("op")
    A, ma = build(kind, m1, t1)
    B, mb = build(kind, m2, t2)
    if classes_of(kind, A) != ma or classes_of(kind, B) != mb:
        return False
    # RRSIG: pool index 1 covers MX, the others cover A: a mixed set is refused on add (covered above via DifferingCovers)
    hit("built")
    singleton = kind in SINGLETON
    ttl_a, ttl_b = A.ttl, B.ttl
    differing = kind == "RRSIG" and len(ma) > 0 and len(mb) > 0 and A.covers != B.covers
    try:
        if op == "union_update":
            A.union_update(B)
            R = A
        elif op == "update":
            A.update(B)
            R = A
        elif op == "intersection_update":
            A.intersection_update(B)
            R = A
        elif op == "union":
            R = A.union(B)
        elif op == "or":
            R = A | B
        elif op == "intersection":
            R = A.intersection(B)
        elif op == "difference":
            R = A.difference(B)
        elif op == "symmetric_difference":
            R = A.symmetric_difference(B)
        else:
            # the functional operations of the immutable flavour (what versioned-zone readers hand out)
            IA = dns.rdataset.ImmutableRdataset(A)
            if op == "imm_xor":
                R = IA ^ B
            elif op == "imm_and":
                R = IA & B
            elif op == "imm_sub":
                R = IA - B
            else:
                R = getattr(IA, op[4:])(B)
            if not isinstance(R, dns.rdataset.ImmutableRdataset):
                return False
            op = {"imm_xor": "symmetric_difference", "imm_and": "intersection", "imm_sub": "difference"}.get(op, op if op == "imm_union" else op[4:])
    except dns.rdataset.DifferingCovers:
        return differing and op in ("union_update", "update", "union", "or", "imm_union", "symmetric_difference", "imm_symmetric_difference", "imm_xor")
    got = classes_of(kind, R)
    if got is None:
        return False
    if op in ("union_update", "update", "union", "or", "imm_union"):
        if differing and len([x for x in mb if x not in ma]) > 0:
            return False  # must have been refused
        if singleton:
            want = mb if mb else ma
        else:
            want = ma + [x for x in mb if x not in ma]
        want_ttl = None
        if len(ma) == 0:
            want_ttl = ttl_b
        else:
            want_ttl = ttl_a if ttl_a <= ttl_b else ttl_b
        if R.ttl != want_ttl:
            return False
    elif op in ("intersection_update", "intersection"):
        want = [x for x in ma if x in mb]
        if op == "intersection_update":
            want_ttl = ttl_b if len(ma) == 0 else (ttl_a if ttl_a <= ttl_b else ttl_b)
            if R.ttl != want_ttl:
                return False
    elif op == "difference":
        want = [x for x in ma if x not in mb]
    else:
        want = [x for x in ma if x not in mb] + [x for x in mb if x not in ma]
        if singleton and len(want) > 1:
            want = want[-1:]
    if len(got) != len(want) or not all([x in got for x in want]):
        return False
    if op not in ("symmetric_difference",) and got != want:
        return False
    if op in ("union", "or", "intersection", "difference", "symmetric_difference", "imm_union"):
        if classes_of(kind, A) != ma or classes_of(kind, B) != mb or A.ttl != ttl_a or B.ttl != ttl_b:
            return False
    return True


def h07b_pre(m1, m2, t1, t2):
    n = len(POOLS[S("kind")])
    return 0 <= m1 < 2**n and 0 <= m2 < 2**n and 0 <= t1 <= 2**31 - 1 and 0 <= t2 <= 2**31 - 1


H07B_OPS = ["union_update", "update", "intersection_update", "union", "or", "intersection", "difference", "symmetric_difference", "imm_union",
            "imm_intersection", "imm_difference", "imm_symmetric_difference", "imm_xor", "imm_and", "imm_sub"]


def h07b_shards(tier):
    return [{"kind": k, "op": op, "_timeout": 600, "_path_timeout": 30} for k in POOLS for op in H07B_OPS]


def h07b2(p1: int, l1: int, p2: int, l2: int, ttl: int, ttl2: int) -> bool:
    """Duplicates collapse by record equality decided on symbolic content; refusal of foreign class/type; TTL minimisation on add."""
    a = dns.rdata.from_wire(IN, dns.rdatatype.MX, p1.to_bytes(2, "big") + bytes([1, l1, 0]), 0, 5)
    b = dns.rdata.from_wire(IN, dns.rdatatype.MX, p2.to_bytes(2, "big") + bytes([1, l2, 0]), 0, 5)
    rds = dns.rdataset.Rdataset(IN, dns.rdatatype.MX)
    rds.add(a, ttl)
    rds.add(b, ttl2)
    same = p1 == p2 and fold(bytes([l1])) == fold(bytes([l2]))
    hit("added")
    if len(rds) != (1 if same else 2):
        return False
    if rds.ttl != (ttl if ttl <= ttl2 else ttl2):
        return False
    if (a == b) != same or (a in rds) is not True or (b in rds) is not True:
        return False
    for foreign in (POOL_A[0], dns.rdata.from_text(dns.rdataclass.CH, "TXT", '"x"')):
        try:
            rds.add(foreign)
            return False
        except dns.rdataset.IncompatibleTypes:
            pass
    # rrset equality ignores order and TTL of insertion order
    r1 = dns.rrset.from_rdata_list("x.example.", ttl, [a, b])
    r2 = dns.rrset.from_rdata_list("X.example.", ttl, [b, a])
    return r1 == r2 and len(r1) == len(rds)


def h07b2_pre(p1, l1, p2, l2, ttl, ttl2):
    return 0 <= p1 <= 65535 and 0 <= p2 <= 65535 and 0 <= l1 <= 255 and 0 <= l2 <= 255 and 0 <= ttl <= 2**31 - 1 and 0 <= ttl2 <= 2**31 - 1


def h07b3(t1: int, t2: int, t3: int, same: bool) -> bool:
    """add(rd, ttl) on singleton and ordinary sets: TTL = minimum of every TTL merged in; singleton keeps only the newest record."""
    kind = S("kind")
    pool = POOLS[kind]
    rds = dns.rdataset.Rdataset(IN, dns.rdatatype.from_text(kind))
    rds.add(pool[0], t1)
    rds.add(pool[0] if same else pool[1], t2)
    rds.add(pool[1], t3)
    hit("added")
    m = t1 if t1 <= t2 else t2
    m = m if m <= t3 else t3
    if rds.ttl != m:
        return False
    if kind in SINGLETON:
        return len(rds) == 1 and rds[0] == pool[1]
    return len(rds) == (2 if EQCLASS[kind][0] != EQCLASS[kind][1] else 1)


def h07b3_pre(t1, t2, t3, same):
    return all([0 <= t <= 2**31 - 1 for t in (t1, t2, t3)])


# ---------------------------------------------------------------- H07c Rdata equality / order; immutability

def canon_mx(buf):
    """Independent canonical form of an MX wire: preference + lower-cased uncompressed name."""
    labels = ref_name_from_wire(buf, 2)[0]
    out = buf[:2]
    for lab in labels:
        out += bytes([len(lab)]) + fold(lab)
    return out


def h07c(b1: bytes, b2: bytes) -> bool:
    """a == b iff same type and equal canonical encoding; a < b iff canonical octet strings compare; equal => equal hash; attributes cannot be rebound."""
    t = S("t")
    try:
        a = dns.rdata.from_wire(IN, t, b1, 0, len(b1))
        b = dns.rdata.from_wire(IN, t, b2, 0, len(b2))
    except dns.exception.FormError:
        return True
    hit("decoded")
    if S("name") == "MX":
        ca, cb = canon_mx(b1), canon_mx(b2)
    else:
        ca, cb = b1, b2  # TXT / opaque types: the wire form is canonical
    if (a == b) != (ca == cb) or (a != b) != (ca != cb):
        return False
    if (a < b) != (ca < cb) or (a > b) != (ca > cb) or (a <= b) != (ca <= cb) or (a >= b) != (ca >= cb):
        return False
    # different type: never equal, never hashable-equal
    other = POOL_A[0]
    if a == other or not (a != other):
        return False
    for obj in (a,):
        for slot in ("rdclass", "rdtype", "preference", "exchange", "strings"):
            if hasattr(obj, slot):
                try:
                    setattr(obj, slot, 1)
                    return False
                except (TypeError, AttributeError):
                    pass
                try:
                    delattr(obj, slot)
                    return False
                except (TypeError, AttributeError):
                    pass
    return True


def h07c_pre(b1, b2):
    return len(b1) <= S("max") and len(b2) <= S("max") and len(b1) >= 1 and len(b2) >= 1


def h07c2(i: int, j: int) -> bool:
    """Concrete pool: equal records hash equally (real __hash__), names are immutable, copies are equal."""
    kind = S("kind")
    pool = POOLS[kind]
    a, b = pool[i], pool[j]
    hit("pair")
    if a == b and REAL_RDATA_HASH(a) != REAL_RDATA_HASH(b):
        return False
    if (a == b) != (EQCLASS[kind][i] == EQCLASS[kind][j]):
        return False
    n = dns.name.from_text("Foo.example.")
    n2 = dns.name.from_text("foo.EXAMPLE.")
    if n != n2 or REAL_NAME_HASH(n) != REAL_NAME_HASH(n2):
        return False
    for attr in ("labels",):
        try:
            setattr(n, attr, ())
            return False
        except (TypeError, AttributeError):
            pass
    if copy.copy(a) != a or copy.deepcopy(a) != a:
        return False
    return isinstance(n.labels, tuple)


def h07c2_pre(i, j):
    n = len(POOLS[S("kind")])
    return 0 <= i < n and 0 <= j < n


HARNESSES = [
    Harness("H07a", h07a, h07a_pre, h07a_shards, kind="finite selection (elements 0..2), exhaustive",
            encodes=["dns.set.Set.union_update", "dns.set.Set.intersection_update", "dns.set.Set.difference_update",
                     "dns.set.Set.symmetric_difference_update", "dns.set.Set.union", "dns.set.Set.intersection", "dns.set.Set.difference",
                     "dns.set.Set.symmetric_difference", "dns.set.Set._clone", "dns.set.Set.issubset", "dns.set.Set.issuperset",
                     "dns.set.Set.isdisjoint", "dns.set.Set.__eq__", "dns.set.Set.add"],
            bound="23 operations x operand lists of 0..2 (thorough 0..3) elements each over values 0..2 x aliased (other is self) variants",
            stubs=[], outside="sets with > 3 elements per operand", batch=12),
    Harness("H07b", h07b, h07b_pre, h07b_shards, kind="finite selection of members, universal TTLs",
            encodes=["dns.rdataset.Rdataset.add", "dns.rdataset.Rdataset.update_ttl", "dns.rdataset.Rdataset.union_update",
                     "dns.rdataset.Rdataset.intersection_update", "dns.rdataset.Rdataset.update", "dns.rdataset.Rdataset._clone",
                     "dns.rdataset.ImmutableRdataset.union", "dns.set.Set.union_update"],
            bound="5 record pools (A x4, MX x4 with case-variant duplicates, CNAME x3 and SOA x2 singletons, RRSIG x3 with two covered types), both operands any subset, TTLs symbolic 0..2^31-1, 9 operations",
            stubs=["E6"], outside="other types"),
    Harness("H07b2", h07b2, h07b2_pre, lambda tier: [{"_timeout": 600, "_path_timeout": 60}], kind="universal",
            encodes=["dns.rdataset.Rdataset.add", "dns.rdata.Rdata.__eq__", "dns.rdata.Rdata.to_digestable", "dns.set.Set.add", "dns.rrset.RRset.__eq__"],
            bound="two MX records with symbolic preference (16 bit) and one-octet target label (all 256 values), symbolic TTLs",
            stubs=["E1", "E6"], outside="longer names"),
    Harness("H07b3", h07b3, h07b3_pre, lambda tier: [{"kind": k, "_timeout": 300} for k in ("CNAME", "SOA", "A", "MX")], kind="universal over TTLs",
            encodes=["dns.rdataset.Rdataset.add", "dns.rdataset.Rdataset.update_ttl"], bound="three add(rd, ttl) calls with symbolic TTLs on singleton (CNAME, SOA) and ordinary (A, MX) sets",
            stubs=["E6"], outside=""),
    Harness("H07c", h07c, h07c_pre, lambda tier: [{"t": int(dns.rdatatype.from_text(n)), "name": n, "max": m + (0 if tier == "quick" else 1),
                                                     "_timeout": 900 if tier == "quick" else 7200, "_path_timeout": 60} for n, m in (("MX", 5), ("TXT", 3), ("NSAP", 2))],
            kind="universal",
            encodes=["dns.rdata.Rdata.__eq__", "dns.rdata.Rdata.__lt__", "dns.rdata.Rdata._cmp", "dns.rdata.Rdata.to_digestable",
                     "dns.rdata.Rdata.__setattr__" if hasattr(dns.rdata.Rdata, "__setattr__") else "dns.immutable.immutable"],
            bound="pairs of records decoded from symbolic wire: MX <= 5 octets, TXT <= 3, NSAP <= 2 (thorough +1)",
            stubs=["E1"], outside="longer RDATA; types beyond MX/TXT/NSAP (C02 covers per-type decode)"),
    Harness("H07c2", h07c2, h07c2_pre, lambda tier: [{"kind": k, "_timeout": 100} for k in POOLS], kind="finite selection",
            encodes=["dns.rdata.Rdata.__hash__", "dns.name.Name.__hash__", "dns.name.Name.__setattr__" if hasattr(dns.name.Name, "__setattr__") else "dns.immutable.immutable"],
            bound="all pairs inside 5 concrete pools; real __hash__ functions", stubs=[], outside="hash of symbolic content"),
]
