"""C13  Inbound AXFR/IXFR converges to the server's zone or leaves the zone untouched."""

import vf.prelude  # noqa: F401
from vf.api import Harness, S, concrete, hit

import dns.exception
import dns.flags
import dns.message
import dns.name
import dns.rcode
import dns.rdata
import dns.rdataclass
import dns.rdatatype
import dns.rrset
import dns.versioned
import dns.xfr
import dns.zone

PROPERTY = "C13"
IN = dns.rdataclass.IN
ORIGIN = dns.name.from_text("example.")
ZONE_CLASSES = {"plain": dns.zone.Zone, "versioned": dns.versioned.Zone}

# record pool (owner relative to the origin, type, text); index 0 is the apex NS
POOL = [("@", "NS", "ns.example."), ("a", "A", "10.0.0.1"), ("a", "A", "10.0.0.2"), ("b", "TXT", '"x"'), ("c.b", "A", "10.0.0.3")]
OUTSIDE = ("glue.other.", "A", "10.9.9.9")  # out-of-zone glue in a transfer is ignored
# three versions of the zone as sets of pool indices
VERSIONS = [[0, 1, 3], [0, 1, 2], [0, 2, 3, 4]]


def soa_rd(serial):
    base = dns.rdata.from_text(IN, dns.rdatatype.SOA, "ns.example. hostmaster.example. 1 2 3 4 5")
    return base.replace(serial=serial)


def rr(item, relativize):
    """One-record rrset for a stream item ('soa', serial) or ('rec', pool index) or ('out',)."""
    if item[0] == "soa":
        name = dns.name.empty if relativize else ORIGIN
        r = dns.rrset.RRset(name, IN, dns.rdatatype.SOA)
        r.add(soa_rd(item[1]), 300)
        return r
    owner, t, txt = OUTSIDE if item[0] == "out" else POOL[item[1]]
    if owner.endswith("."):
        name = dns.name.from_text(owner)
    elif owner == "@":
        name = dns.name.empty if relativize else ORIGIN
    else:
        name = dns.name.from_text(owner, None)
        if not relativize:
            name = name.derelativize(ORIGIN)
    r = dns.rrset.RRset(name, IN, dns.rdatatype.from_text(t))
    r.add(dns.rdata.from_text(IN, t, txt), 300)
    return r


def make_zone(kind, relativize, version, serial):
    """Local zone holding VERSIONS[version] with the given SOA serial (serial may be symbolic)."""
    with concrete():
        z = ZONE_CLASSES[kind](ORIGIN, relativize=relativize)
    with z.writer() as txn:
        txn.add(rr(("soa", serial), relativize))
        for i in VERSIONS[version]:
            txn.add(rr(("rec", i), relativize))
    return z


def zone_state(z, relativize):
    """(serial, sorted pool indices present, number of nodes)."""
    apex = dns.name.empty if relativize else ORIGIN
    soa = z.get_rdataset(apex, dns.rdatatype.SOA)
    serial = soa[0].serial if soa is not None else None
    present = []
    for i in range(len(POOL)):
        r = rr(("rec", i), relativize)
        rds = z.get_rdataset(r.name, r.rdtype)
        # (compared by meaning: records parsed from wire carry names relative to the origin, pool records absolute ones)
        if rds is not None and any([x.to_wire(origin=ORIGIN) == r[0].to_wire(origin=ORIGIN) for x in rds]):
            present.append(i)
    count = 0
    for name, node in z.nodes.items():
        for rds in node:
            count += len(rds)
    return serial, present, count


def axfr_stream(target, serial):
    return [("soa", serial)] + [("rec", i) for i in VERSIONS[target]] + [("soa", serial)]


def ixfr_stream(chain, serials):
    """chain: version indices [from, ..., to]; serials: matching serial list."""
    out = [("soa", serials[-1])]
    for k in range(len(chain) - 1):
        a, b = VERSIONS[chain[k]], VERSIONS[chain[k + 1]]
        out.append(("soa", serials[k]))
        out += [("rec", i) for i in a if i not in b]
        out.append(("soa", serials[k + 1]))
        out += [("rec", i) for i in b if i not in a]
    out.append(("soa", serials[-1]))
    return out


def to_messages(items, cuts, relativize, rdtype, with_question, rcodes=None):
    msgs = []
    bounds = [0] + [c for c in cuts] + [len(items)]
    for k in range(len(bounds) - 1):
        part = items[bounds[k]:bounds[k + 1]]
        if k > 0 and len(part) == 0:
            continue
        m = dns.message.Message(id=1)
        m.flags = dns.flags.QR
        if rcodes is not None and rcodes[k] != 0:
            m.set_rcode(rcodes[k])
        if with_question and k == 0:
            m.question.append(dns.rrset.RRset(dns.name.empty if relativize else ORIGIN, IN, rdtype))
        for it in part:
            m.answer.append(rr(it, relativize))
        msgs.append(m)
    return msgs


def feed(z, msgs, rdtype, serial, is_udp):
    """Drive dns.xfr.Inbound the way dns.query._inbound_xfr does.  Returns (done, exception or None)."""
    done = False
    try:
        with dns.xfr.Inbound(z, rdtype, serial, is_udp) as inbound:
            for m in msgs:
                if done:
                    # messages after completion are never read by the socket loop
                    break
                if S("wire"):
                    # as dns.query._inbound_xfr receives it: parsed from wire in transfer mode
                    w = m.to_wire(origin=ORIGIN, want_shuffle=False)
                    m = dns.message.from_wire(w, xfr=True, origin=z.from_wire_origin(), one_rr_per_rrset=(rdtype == dns.rdatatype.IXFR))
                done = inbound.process_message(m)
    except (dns.exception.DNSException, KeyError, ValueError) as e:
        return done, e
    return done, None


def later(a, b):
    """RFC 1982: b is later than a (32 bit)."""
    d = (b - a) % 2**32
    return 0 < d < 2**31


# ---------------------------------------------------------------- H13a valid streams, every cutting

# Serial arithmetic itself is decided for all 2^64 operand pairs in C10/H10c; z3 answers `unknown` when symbolic
# serials flow through whole transfers, so serials and increments here are symbolic choices from boundary pools.
SPOOL = [0, 1, 5, 2**31 - 2, 2**31 - 1, 2**31, 2**32 - 8, 2**32 - 2, 2**32 - 1]
DPOOL = [1, 2, 7, 2**30, 2**31 - 9]


def h13a(si: int, d1i: int, d2i: int, c1: int, c2: int, question: bool) -> bool:
    """Any valid response stream, cut anywhere into <= 3 messages, leaves the zone equal to the server's target version with its serial; done exactly on the last message."""
    kind, relativize, form = S("zone"), S("relativize"), S("form")
    s0, d1, d2 = SPOOL[si], DPOOL[d1i], DPOOL[d2i]
    s1 = (s0 + d1) % 2**32
    s2 = (s1 + d2) % 2**32
    z = make_zone(kind, relativize, 0, s0)
    if form == "axfr":
        items, rdtype, serial, target, tserial = axfr_stream(2, s2), dns.rdatatype.AXFR, None, 2, s2
    elif form == "ixfr1":
        items, rdtype, serial, target, tserial = ixfr_stream([0, 1], [s0, s1]), dns.rdatatype.IXFR, s0, 1, s1
    elif form == "ixfr2":
        items, rdtype, serial, target, tserial = ixfr_stream([0, 1, 2], [s0, s1, s2]), dns.rdatatype.IXFR, s0, 2, s2
    elif form == "ixfr_as_axfr":
        items, rdtype, serial, target, tserial = axfr_stream(2, s2), dns.rdatatype.IXFR, s0, 2, s2
    else:  # up to date
        items, rdtype, serial, target, tserial = [("soa", s0)], dns.rdatatype.IXFR, s0, 0, s0
    msgs = to_messages(items, [c1, c2], relativize, rdtype, question)
    done, exc = feed(z, msgs, rdtype, serial, S("udp"))
    if exc is not None or not done:
        return False
    hit("transferred")
    serial_now, present, count = zone_state(z, relativize)
    return serial_now == tserial and present == VERSIONS[target] and count == len(VERSIONS[target]) + 1


def h13a_pre(si, d1i, d2i, c1, c2, question):
    n = S("n")
    if not (0 <= si < len(SPOOL) and 0 <= d1i < len(DPOOL) and 0 <= d2i < len(DPOOL)):
        return False
    if DPOOL[d1i] + DPOOL[d2i] >= 2**31:
        return False  # each version, and the target, is RFC 1982-later than the client's serial
    if S("form") in ("axfr", "uptodate", "ixfr_as_axfr") and (d1i != 0 or d2i != 0) and S("form") != "ixfr_as_axfr":
        return False
    if S("form") == "ixfr1" and d2i != 0:
        return False
    if S("udp"):
        return c1 == n and c2 == n
    if S("c1r") is not None and not (S("c1r")[0] <= c1 <= S("c1r")[1]):
        return False
    return 1 <= c1 <= c2 <= n


def h13a_shards(tier):
    out = []
    lens = {"axfr": 2 + len(VERSIONS[2]), "ixfr1": len(ixfr_stream([0, 1], [1, 2])), "ixfr2": len(ixfr_stream([0, 1, 2], [1, 2, 3])),
            "ixfr_as_axfr": 2 + len(VERSIONS[2]), "uptodate": 1}
    for kind in ("plain", "versioned"):
        for rel in ((True,) if tier == "quick" else (True, False)):
            for form in lens:
                # (the long two-step IXFR stream is split by the position of the first cut)
                for c1r in ([(1, 2), (3, 4), (5, 7), (8, lens[form])] if form == "ixfr2" else [None]):
                    out.append({"zone": kind, "relativize": rel, "form": form, "n": lens[form], "udp": False, "c1r": c1r, "_timeout": 1200, "_path_timeout": 60})
            for form in ("ixfr1", "uptodate"):
                out.append({"zone": kind, "relativize": rel, "form": form, "n": lens[form], "udp": True, "_timeout": 600, "_path_timeout": 60})
    return out


# ---------------------------------------------------------------- B5 acceptor (independent reference)

def accept(items, boundaries, rdtype_ixfr, client_serial, is_udp, rcodes, question_ok, local):
    """Decide a stream.  items: list of ('soa', serial) | ('rec', i) | ('out',); boundaries: index where each message ends.
    Returns ('ok', serial, sorted indices) | ('reject',) | ('incomplete',).  local = (serial, indices) of the client zone."""
    if not question_ok:
        return ("reject",)
    if any([r != 0 for r in rcodes]):
        # a bad rcode in a message that is read rejects; messages after completion are not read (checked by caller)
        pass
    if len(items) == 0 or items[0][0] != "soa":
        return ("reject",)
    final = items[0]
    n = final[1]
    pos = 1
    if rdtype_ixfr:
        if n == client_serial:
            # up to date: nothing may follow in the messages that are read
            return ("ok_uptodate", pos)
        if not later(client_serial, n):
            return ("reject",)
        if is_udp and len(items) == 1:
            return ("reject",)
    axfr_style = (not rdtype_ixfr) or len(items) < 2 or items[1][0] != "soa"
    if axfr_style:
        content = []
        while pos < len(items):
            it = items[pos]
            pos += 1
            if it[0] == "soa":
                if it[1] == n:
                    return ("ok", n, sorted(content), pos)
                return ("reject",)
            if it[0] == "rec" and it[1] not in content:
                content.append(it[1])
        return ("incomplete",)
    # IXFR grammar
    base = client_serial
    state = list(local[1])
    delete_mode = False
    first = True
    while pos < len(items):
        it = items[pos]
        pos += 1
        if it[0] == "soa":
            delete_mode = not delete_mode
            if delete_mode:
                if it[1] == n and base == n:
                    if first:
                        return ("reject",)  # empty sequence
                    return ("ok", n, sorted(state), pos)
                if it[1] == n and base != n:
                    return ("reject",)  # final SOA in deletion position but the chain has not reached it
                if it[1] != base:
                    return ("reject",)
            else:
                base = it[1]
            first = False
            continue
        first = False
        if it[0] == "out":
            continue
        if delete_mode:
            if it[1] not in state:
                return ("reject",)
            state.remove(it[1])
        elif it[1] not in state:
            state.append(it[1])
    return ("incomplete",)


# ---------------------------------------------------------------- H13b single faults

FAULTS = ["none", "drop", "dup", "swap", "truncate", "serial", "surplus", "glue", "rcode", "question", "backwards"]


def h13b(si: int, pos: int, cut: int) -> bool:
    """A valid stream with one fault at any position, cut anywhere into 2 messages: either still a valid stream (zone = what the reference acceptor derives) or an error with the zone exactly as before; never an error after the zone changed."""
    kind, relativize, form, fault = S("zone"), S("relativize"), S("form"), S("fault")
    s0 = SPOOL[si]
    s1 = (s0 + 1) % 2**32
    s2 = (s0 + 7) % 2**32
    z = make_zone(kind, relativize, 0, s0)
    ixfr = form != "axfr"
    client = s0 if ixfr else None
    if form == "axfr":
        items = axfr_stream(2, s2)
    elif form == "ixfr2":
        items = ixfr_stream([0, 1, 2], [s0, s1, s2])
    else:
        items = axfr_stream(2, s2)
    items = list(items)
    n = len(items)
    rcodes = [0, 0]
    question_ok = True
    if fault == "drop":
        del items[pos]
    elif fault == "dup":
        items.insert(pos, items[pos])
    elif fault == "swap":
        if pos + 1 < n:
            items[pos], items[pos + 1] = items[pos + 1], items[pos]
    elif fault == "truncate":
        items = items[:pos]
    elif fault == "serial":
        if items[pos][0] == "soa":
            items[pos] = ("soa", (items[pos][1] + 1) % 2**32)
    elif fault == "surplus":
        items.append(("rec", 1))
        cut = min(cut, len(items))  # the surplus record may or may not share the final SOA's message
    elif fault == "glue":
        items.insert(pos, ("out",))
    elif fault == "rcode":
        rcodes[pos % 2] = 2
    elif fault == "question":
        question_ok = False
    elif fault == "backwards":
        if ixfr:
            items[0] = ("soa", (s0 - 3) % 2**32)
            items[-1] = items[0]
    cut = min(cut, len(items))
    rdtype = dns.rdatatype.IXFR if ixfr else dns.rdatatype.AXFR
    msgs = to_messages(items, [cut], relativize, rdtype, True, rcodes)
    if not question_ok:
        msgs[0].question[0] = dns.rrset.RRset(dns.name.from_text("other", None), IN, rdtype)
    before = zone_state(z, relativize)
    done, exc = feed(z, msgs, rdtype, client, False)
    after = zone_state(z, relativize)
    hit("fed")
    # reference verdict on what the client actually read: all of message 1, then message 2 unless done after message 1
    verdict = accept(items, [cut], ixfr, client, False, rcodes, question_ok, (s0, VERSIONS[0]))
    second_read = len(msgs) > 1
    if verdict[0] in ("ok", "ok_uptodate"):
        endpos = verdict[-1]
        in_first = endpos <= cut
        msg_end = cut if in_first else len(items)
        if endpos < msg_end:
            verdict = ("reject",)  # surplus records after the final SOA in the same message
        elif in_first:
            second_read = False  # transfer complete: the next message is never read
    if rcodes[0] != 0 or (rcodes[1] != 0 and second_read):
        verdict = ("reject",)
    if verdict[0] == "ok":
        return exc is None and done and after[0] == verdict[1] and after[1] == verdict[2] and after[2] == len(verdict[2]) + 1
    if verdict[0] == "ok_uptodate":
        return exc is None and done and after == before
    if verdict[0] == "incomplete":
        # stream ended early: process_message never reported completion; the context exit rolled back
        return exc is None and not done and after == before
    # reject: an exception, and the zone exactly as it was
    return exc is not None and after == before


def h13b_pre(si, pos, cut):
    n = S("n")
    return si in S("serials") and 0 <= pos < n and 1 <= cut <= n + 1


def h13b_shards(tier):
    out = []
    lens = {"axfr": 2 + len(VERSIONS[2]), "ixfr2": len(ixfr_stream([0, 1, 2], [1, 2, 3])), "ixfr_as_axfr": 2 + len(VERSIONS[2])}
    for kind in (("versioned",) if tier == "quick" else ("plain", "versioned")):
        for form in lens:
            for fault in FAULTS:
                out.append({"zone": kind, "relativize": True, "form": form, "fault": fault, "n": lens[form],
                            "serials": [1, 8] if tier == "quick" else list(range(len(SPOOL))), "_timeout": 1200, "_path_timeout": 60})
        # the same faults with every message rendered and parsed back in transfer mode (the socket path)
        for form in (("axfr",) if tier == "quick" else tuple(lens)):
            for fault in (("none", "dup", "swap", "surplus") if tier == "quick" else FAULTS):
                out.append({"zone": kind, "relativize": True, "form": form, "fault": fault, "n": lens[form], "wire": True,
                            "serials": [1] if tier == "quick" else [1, 8], "_timeout": 1200, "_path_timeout": 60})
    return out


# ---------------------------------------------------------------- H13c query helpers

QSERIALS = [-2, -1, 0, 1, 5, 2**31 - 1, 2**31, 2**32 - 1, 2**32, 2**32 + 1]


def h13c(k: int) -> bool:
    """make_query / extract_serial_from_query: the serial round-trips; ValueError exactly outside 1..2^32-1 (0 = use the zone's serial)."""
    serial = QSERIALS[k]
    with concrete():
        z = make_zone("plain", True, 0, 5)
    try:
        q, s = dns.xfr.make_query(z, serial)
    except ValueError:
        return not (0 <= serial < 2**32)
    hit("query")
    if not (0 <= serial < 2**32):
        return False
    want = 5 if serial == 0 else serial
    if s != want or q.question[0].rdtype != dns.rdatatype.IXFR:
        return False
    return dns.xfr.extract_serial_from_query(q) == want


def h13c_pre(k):
    return 0 <= k < len(QSERIALS)


HARNESSES = [
    Harness("H13a", h13a, h13a_pre, h13a_shards, kind="finite selection (serial pools, cuts), exhaustive",
            encodes=["dns.xfr.Inbound.__init__", "dns.xfr.Inbound.process_message", "dns.xfr.Inbound.__exit__", "dns.serial.Serial.__lt__",
                     "dns.transaction.Transaction.delete_exact", "dns.transaction.Transaction.add", "dns.transaction.Transaction.replace"],
            bound="5 response forms (AXFR, IXFR 1 and 2 steps, AXFR-style answer to IXFR, already up to date) + UDP IXFR, over 3 zone versions; serials and increments chosen symbolically from boundary pools (9 base serials incl. 0, 2^31-1, 2^31, 2^32-1; 5 increments up to 2^31-9: wrap-around included); every cutting into <= 3 messages; plain and versioned zones; question present or not",
            stubs=["E6"], outside="chains > 2 steps, > 3 messages, TSIG on transfers, the socket loop"),
    Harness("H13b", h13b, h13b_pre, h13b_shards, kind="finite selection (fault kind, position, cut), universal serial",
            encodes=["dns.xfr.Inbound.process_message", "dns.xfr.Inbound.__exit__", "dns.transaction.Transaction.delete_exact"],
            bound="messages as objects, and (AXFR with 4 fault kinds; thorough: all) rendered and parsed back with from_wire(xfr=True) as the socket path does; 11 fault kinds (none, drop, duplicate, swap, truncate, corrupt SOA serial, surplus record after the final SOA, out-of-zone glue, SERVFAIL rcode, wrong question, serial going backwards) at every position of 3 stream forms, every cut into 2 messages; base serial from the pool (quick: 1 and 2^32-1)",
            stubs=["E6"], outside="double faults; > 2 messages"),
    Harness("H13c", h13c, h13c_pre, lambda tier: [{"_timeout": 300}], kind="finite selection",
            encodes=["dns.xfr.make_query", "dns.xfr.extract_serial_from_query"], bound="10 boundary serials from -2 to 2^32+1 (finite selection)", stubs=["E6"], outside=""),
]
