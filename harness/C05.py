"""C05  Every record type's master-file text parses back to an equal record."""

import vf.prelude  # noqa: F401
from vf.api import Harness, S, concrete, hit

import dns.exception
import dns.name
import dns.rdata
import dns.rdataclass
import dns.rdatatype

from harness.types_common import EX, IN, implemented, specimen

PROPERTY = "C05"

NO_TEXT = {"OPT"}  # OPT has no master-file form
# F-C05-hinfo: character-string fields parsed with code-point (not octet) semantics of \DDD
CODEPOINT_FIELDS = {("HINFO", "cpu"), ("HINFO", "os"), ("X25", "address"), ("ISDN", "address"), ("ISDN", "subaddress"),
                    ("NAPTR", "flags"), ("NAPTR", "service"), ("NAPTR", "regexp"), ("CAA", "value")}
OPAQUE_POOL = [b"\x00", b"\xff", b"ab", b"\x00\x00", bytes(range(1, 32)), b"\xfb\xff\xbe", b"Man", b"M", b"Ma", bytes(range(200, 233)), b""]
EMPTY = 10
# F-C05-empty: an empty base64 / hex field prints text that does not parse back
EMPTY_FAILS = {("SIG", "signature"), ("KEY", "key"), ("CERT", "certificate"), ("DS", "digest"), ("SSHFP", "fingerprint"), ("IPSECKEY", "key"),
               ("RRSIG", "signature"), ("DNSKEY", "key"), ("DHCID", "data"), ("NSEC3", "next"), ("TLSA", "cert"), ("SMIMEA", "cert"), ("HIP", "hit"),
               ("HIP", "key"), ("CDS", "digest"), ("CDNSKEY", "key"), ("TKEY", "key"), ("TSIG", "mac"), ("DLV", "digest")}


def slots_of(rd):
    out = []
    for cls in type(rd).__mro__:
        for s in getattr(cls, "__slots__", []):
            if s not in out:
                out.append(s)
    return [s for s in out if s not in ("__dict__", "__weakref__", "rdclass", "rdtype", "rdcomment")]


def text_roundtrip(c, t, rd, origin, relativize):
    txt = rd.to_text(origin=origin, relativize=relativize)
    rd2 = dns.rdata.from_text(c, t, txt, origin=origin, relativize=relativize)
    if not (rd2 == rd) or rd2 != rd:
        return False
    # a record accepted from text can always be encoded
    rd2.to_wire(origin=origin)
    return True


def field_kind(rd, field):
    v = getattr(rd, field)
    if isinstance(v, bool):
        return None
    if isinstance(v, int):
        top = None
        for cand in (255, 65535, 2**32 - 1, 2**48 - 1):
            try:
                rd.replace(**{field: cand}).to_wire()
                top = cand
            except Exception:
                break
        if top is None:
            return None
        try:
            rd.replace(**{field: top + 1}).to_wire()
            return None
        except Exception:
            pass
        return ["int", top]
    if isinstance(v, bytes):
        # character-string (escaped text) or opaque (base64 / hex) field?
        try:
            probe = rd.replace(**{field: b"\xc8"}).to_text()
            if "\\200" in probe:
                return ["string"]
        except Exception:
            pass
        return ["opaque"]
    if isinstance(v, dns.name.Name):
        return ["name"]
    return None


# ---------------------------------------------------------------- H05b field at a time, through text

def h05b(n: int, data: bytes, pick: int, b0: int, b1: int, relname: bool, use_origin: bool, relativize: bool) -> bool:
    """A specimen with one field set to any in-range value prints text that parses back to an equal record (any origin / relativize choice), and the parsed record encodes."""
    c, t, field, kind = S("c"), S("t"), S("field"), S("kind")
    with concrete():
        rd0 = specimen(c, t, S("name"))
    origin = EX if use_origin else None
    try:
        if kind[0] == "int":
            rd = rd0.replace(**{field: n})
        elif kind[0] == "string":
            rd = rd0.replace(**{field: data})
        elif kind[0] == "opaque":
            rd = rd0.replace(**{field: OPAQUE_POOL[pick]})
        else:
            labels = [bytes([b0]), bytes([b1])][:S("nlab") or 2]
            if relname:
                if origin is None:
                    return True
                nm = dns.name.Name(labels)
            else:
                nm = dns.name.Name(labels + [b"example", b""])
            rd = rd0.replace(**{field: nm})
    except (ValueError, TypeError, dns.exception.DNSException):
        hit("refused")
        return True
    hit("accepted")
    if origin is not None:
        # With an origin, names beneath it may be printed relative and come back relative (or absolute with
        # relativize=False): the records then mean the same without being == ; compare their wire forms.
        txt = rd.to_text(origin=origin, relativize=relativize)
        rd2 = dns.rdata.from_text(c, t, txt, origin=origin, relativize=relativize)
        return rd2.to_wire(origin=origin) == rd.to_wire(origin=origin)
    return text_roundtrip(c, t, rd, origin, relativize)


# Boundary pools: used (as a symbolic selection) where a universal 32-bit field costs ~40 s of solver time per digit
# count, and for fields whose renderer is not decimal (type mnemonics, YYYYMMDDHHMMSS times, Chaosnet octal addresses),
# which CPython renders through C code (strftime, enum lookup) and therefore one concrete value per path.
POOL = [0, 1, 9, 10, 99, 100, 255, 256, 257, 999, 1000, 9999, 10000, 32767, 32768, 65534, 65535, 65536, 99999, 100000,
        86399, 86400, 999999999, 1000000000, 2**31 - 1, 2**31, 2**32 - 2, 2**32 - 1, 2**32, 2**48 - 1]
NON_DECIMAL = ("type_covered", "expiration", "inception", "rrtype")


def int_mode(name, field, top, tier):
    if field in NON_DECIMAL or (name == "CH-A" and field == "address"):
        return "pool"
    if top > 65535 and tier == "quick":
        return "pool"
    if field == "algorithm" and tier == "quick":
        return "pool"  # DNSSEC algorithm numbers go through an enum (one path per value, 200-400 s per field): thorough only
    return "all"


def h05b_pre(n, data, pick, b0, b1, relname, use_origin, relativize):
    kind = S("kind")
    if kind[0] == "int" and S("mode") == "pool" and n not in POOL:
        return False
    z = (n == 0, len(data) == 0, pick == 0, b0 == 0 and b1 == 0 and not relname)
    if kind[0] == "int":
        if S("name") in ("SVCB", "HTTPS") and S("field") == "priority" and n == 0:
            return False  # AliasMode with parameters is not a well-formed value (RFC 9460); the constructor does not check
        if S("name") == "KEY" and S("field") == "flags" and n >= 0xC000:
            return False  # RFC 2535 "no key" flag bits together with key material: not a well-formed value
        return 0 <= n <= kind[1] and z[1] and z[2] and z[3]
    if kind[0] == "string":
        return z[0] and len(data) <= S("slen") and z[2] and z[3]
    if kind[0] == "opaque":
        return z[0] and z[1] and 0 <= pick < len(OPAQUE_POOL) and z[3]
    if S("nlab") == 1 and b1 != 0:
        return False
    return z[0] and z[1] and z[2] and 0 <= b0 <= 255 and 0 <= b1 <= 255


def h05b_shards(tier):
    out = []
    with concrete():
        for c, t, name in implemented():
            if name in NO_TEXT or name in ("GPOS", "LOC"):
                continue
            try:
                rd0 = specimen(c, t, name)
            except Exception:
                rd0 = None
            if rd0 is None:
                continue
            for field in slots_of(rd0):
                kind = field_kind(rd0, field)
                if kind is None:
                    continue
                for nlab in ((1, 2) if kind[0] == "name" else (2,)):
                    out.append({"c": c, "t": t, "name": name, "field": field, "kind": kind, "slen": 2 if tier == "quick" else 3, "nlab": nlab,
                                "mode": int_mode(name, field, kind[1], tier) if kind[0] == "int" else "all",
                                # (a 5-digit render / parse identity costs z3 up to ~30 s per query on a loaded machine)
                                # (budgets also order the jobs: the runner starts the largest budgets first)
                                "_timeout": (900 if kind[0] == "name" and nlab == 2 else 800 if kind[0] == "int" and kind[1] > 65535 else 600) if tier == "quick" else 2400,
                                "_path_timeout": 240 if kind[0] == "int" else 60})
    return out


# ---------------------------------------------------------------- H05f TXT-like types under the txt_is_utf8 style

UTF8_POOL = [b"plain", "caf\u00e9".encode(), "\u4e2d\u6587".encode(), "\U0001f600".encode(), b"ctl\x00\x1f\x7f", b'q"b\\s',
             b"\xc2\x80", b"\xc2\x85", b"\xc2\xa0", b"\xc2\xad", b"\xe2\x80\x8b", b"\xe2\x80\xa8", b"\xef\xbb\xbf", b"\xee\x80\x80",
             b"\xff\xfe", b"\xc2", b"a\xc2\x85b", b" ", b";", b"\xcd\xb8"]
TXT_LIKE = ["TXT", "SPF", "AVC", "NINFO", "RESINFO", "WALLET"]


def h05f(ti: int, p1: int, p2: int, two: bool) -> bool:
    """Text written with RdataStyle(txt_is_utf8=True) - documented as lossless - parses back to an equal record for every pooled string:
    ASCII incl. controls and quotes, printable non-ASCII, non-printable non-ASCII code points (C1 controls, NBSP, soft hyphen, zero-width
    space, line separator, BOM, private use, unassigned), invalid UTF-8."""
    t = dns.rdatatype.from_text(TXT_LIKE[ti])
    strings = [UTF8_POOL[p1]] + ([UTF8_POOL[p2]] if two else [])
    wire = b"".join([bytes([len(x)]) + x for x in strings])
    rd = dns.rdata.from_wire(IN, t, wire, 0, len(wire))
    text = rd.to_text(style=dns.rdata.RdataStyle(txt_is_utf8=True))
    hit("printed")
    back = dns.rdata.from_text(IN, t, text)
    return back == rd and back.to_wire() == wire


def h05f_pre(ti, p1, p2, two):
    return 0 <= ti < len(TXT_LIKE) and 0 <= p1 < len(UTF8_POOL) and 0 <= p2 < len(UTF8_POOL) and (two or p2 == 0) and (S("two") == two)


# ---------------------------------------------------------------- H05g base64 / hex chunking styles

CHUNKED = [("DNSKEY", "key"), ("CERT", "certificate"), ("DHCID", "data"), ("SSHFP", "fingerprint"), ("TLSA", "cert"), ("DS", "digest"),
           ("OPENPGPKEY", "key"), ("NSEC3PARAM", "salt")]


def h05g(ti: int, pick: int, chunk: int, generic: bool) -> bool:
    """Text written with any base64 / hex chunk size (a style knob documented as lossless) parses back to an equal record, for the
    ordinary and the generic form."""
    name, field = CHUNKED[ti]
    t = dns.rdatatype.from_text(name)
    with concrete():
        rd0 = specimen(IN, t, name)
    data = OPAQUE_POOL[pick]
    try:
        rd = rd0.replace(**{field: data})
    except (ValueError, TypeError, dns.exception.DNSException):
        return True
    if generic:
        rd = rd.to_generic()
    text = rd.to_text(style=dns.rdata.RdataStyle(base64_chunk_size=chunk, hex_chunk_size=chunk))
    hit("printed")
    back = dns.rdata.from_text(IN, t, text)
    return back.to_wire() == rd.to_wire()


def h05g_pre(ti, pick, chunk, generic):
    return 0 <= ti < len(CHUNKED) and 0 <= pick < len(OPAQUE_POOL) and pick != EMPTY and 0 <= chunk <= 9 and ti == S("ti")


# ---------------------------------------------------------------- H05c generic (RFC 3597) form

def h05c(ti: int, pick: int, as_unknown: bool) -> bool:
    """rd.to_generic().to_text() parses back, as the known type and as TYPEnnn / CLASSnnn spelling, to a record equal to rd."""
    types = S("types")
    c, t, name = types[ti]
    with concrete():
        rd = specimen(c, t, name)
    if rd is None:
        return True
    g = rd.to_generic(origin=EX)
    txt = g.to_text()
    hit("generic")
    if not txt.startswith("\\# "):
        return False
    back = dns.rdata.from_text(c, t, txt)
    if back != rd or back.to_wire() != rd.to_wire():
        return False
    # unknown type with the same data keeps the data
    u = dns.rdata.from_text(c, 65280, "\\# %d %s" % (len(OPAQUE_POOL[pick]), OPAQUE_POOL[pick].hex()))
    if u.to_wire() != OPAQUE_POOL[pick]:
        return False
    return dns.rdata.from_text(c, 65280, u.to_text()) == u


def h05c_pre(ti, pick, as_unknown):
    return 0 <= ti < len(S("types")) and 0 <= pick < len(OPAQUE_POOL) and not as_unknown


def h05c_shards(tier):
    with concrete():
        types = [[c, t, n] for c, t, n in implemented() if n not in NO_TEXT]
    return [{"types": types[i:i + 12], "_timeout": 600, "_path_timeout": 60} for i in range(0, len(types), 12)]


GEN_TYPES = [("NS", "%s"), ("MX", "10 %s"), ("CNAME", "%s"), ("SRV", "1 2 3 %s"), ("SOA", "%s r.example. 1 2 3 4 5")]
GEN_NAMES = ["mail.sub.example.", "other.example.", "sub.example.", "example.", "host.elsewhere."]
GEN_ORIGINS = [None, "example.", "sub.example."]


def h05c2(ti: int, ni: int, oi: int, ri: int, relativize: bool) -> bool:
    """The generic form of a name-bearing known type means the same record as its ordinary text under every origin / relativize / relativize_to choice."""
    tname, tmpl = GEN_TYPES[ti]
    t = dns.rdatatype.from_text(tname)
    origin = None if GEN_ORIGINS[oi] is None else dns.name.from_text(GEN_ORIGINS[oi])
    rto = None if GEN_ORIGINS[ri] is None else dns.name.from_text(GEN_ORIGINS[ri])
    text = tmpl % GEN_NAMES[ni]
    absolute = dns.rdata.from_text(IN, t, text)
    w = absolute.to_wire()
    generic = "\\# %d %s" % (len(w), w.hex())
    a = dns.rdata.from_text(IN, t, text, origin=origin, relativize=relativize, relativize_to=rto)
    b = dns.rdata.from_text(IN, t, generic, origin=origin, relativize=relativize, relativize_to=rto)
    hit("parsed")
    return a == b and b.to_text() == a.to_text()


def h05c2_pre(ti, ni, oi, ri, relativize):
    return 0 <= ti < len(GEN_TYPES) and 0 <= ni < len(GEN_NAMES) and 0 <= oi < 3 and 0 <= ri < 3


# ---------------------------------------------------------------- H05d numeric text tokens (LOC / GPOS / TTL-like units)

NUM_POOL = ["0", "1", "-1", "0.5", "1.00", "90", "91", "180", "181", "59", "60", "59.999", "60.000", "9", "99999999", "90000000.00", "42849672.95",
            "42849673", "-100000", "-100000.01", "-100001", "1e3", "1e9", "0m", "1m", "90000000m", "100000000", "a", "", "-", "+1", "1.2.3", ".5", "5."]
LOC_TEMPLATES = ["%s 2 3 N 4 5 6 E 7m", "1 %s 3 N 4 5 6 E 7m", "1 2 %s N 4 5 6 E 7m", "1 2 3 N %s 5 6 E 7m", "1 2 3 N 4 5 6 E %s",
                 "1 2 3 N 4 5 6 E 7m %s", "1 2 3 N 4 5 6 E 7m 8m %s", "1 2 3 N 4 5 6 E 7m 8m 9m %s"]
GPOS_TEMPLATES = ["%s 2.5 3.5", "1.5 %s 3.5", "1.5 2.5 %s"]


def h05d(tmpl: int, num: int) -> bool:
    """Numeric text fields of LOC / GPOS: whatever from_text accepts can be encoded to wire and its own text parses back to an equal record."""
    if S("type") == "LOC":
        t, text = dns.rdatatype.LOC, LOC_TEMPLATES[tmpl] % NUM_POOL[num]
    else:
        t, text = dns.rdatatype.GPOS, GPOS_TEMPLATES[tmpl] % NUM_POOL[num]
    try:
        rd = dns.rdata.from_text(IN, t, text)
    except dns.exception.SyntaxError:
        return True
    hit("accepted")
    w = rd.to_wire()
    rd2 = dns.rdata.from_wire(IN, t, w, 0, len(w))
    txt = rd.to_text()
    rd3 = dns.rdata.from_text(IN, t, txt)
    return rd3 == rd and rd2 == rd and rd3.to_wire() == w


def h05d_pre(tmpl, num):
    n = len(LOC_TEMPLATES) if S("type") == "LOC" else len(GPOS_TEMPLATES)
    return 0 <= tmpl < n and 0 <= num < len(NUM_POOL)


# ---------------------------------------------------------------- H05e lossless style knobs

def h05e(chunk: int, which: int) -> bool:
    """base64 / hex chunk sizes (documented as keeping the text parseable) do not change what the text means."""
    names = ["DNSKEY", "DS", "RRSIG", "TLSA", "CERT", "DHCID", "NSEC3", "SSHFP"]
    name = names[which]
    with concrete():
        t = dns.rdatatype.from_text(name)
        rd0 = specimen(IN, t, name)
        fld = [f for f in slots_of(rd0) if isinstance(getattr(rd0, f), bytes)][-1]
        rd = rd0.replace(**{fld: bytes(range(40)) if name != "NSEC3" else bytes(range(20))})
    if name in ("DS",):
        return True if rd is None else text_knobs(rd, t, chunk)
    return text_knobs(rd, t, chunk)


def text_knobs(rd, t, chunk):
    style = dns.rdata.RdataStyle(base64_chunk_size=chunk, hex_chunk_size=chunk)
    txt = rd.to_styled_text(style)
    hit("styled")
    return dns.rdata.from_text(IN, t, txt) == rd


def h05e_pre(chunk, which):
    return 0 <= chunk <= 40 and 0 <= which < 8


HARNESSES = [
    Harness("H05b", h05b, h05b_pre, h05b_shards, kind="universal (ints, character-strings, names); finite selection for base64 / hex fields",
            encodes=["dns.rdata.from_text", "dns.rdata.Rdata.to_text", "dns.rdata._escapify", "dns.tokenizer.Tokenizer.get", "dns.tokenizer.Token.unescape",
                     "dns.tokenizer.Token.unescape_to_bytes", "dns.rdata._styled_base64ify", "dns.rdata._styled_hexify", "dns.name.Name.to_text", "dns.name.from_text"],
            bound="for every specimen and every int / bytes / Name field: ints over the field's whole unsigned range when it is <= 16 bits (thorough: also 32 / 48 bits and the DNSSEC algorithm fields) and otherwise a symbolic selection from a 30-value boundary pool (also for type mnemonics, signature times, Chaosnet addresses), character-strings of <= 2 (3) fully symbolic octets, names of one or two symbolic one-octet labels (relative or under example.), base64/hex fields from a pool of 10 octet strings; origin and relativize symbolic",
            stubs=["E2", "E3", "E4", "E5", "E6"], outside="longer strings; list-valued fields; IPv6 / float text (H05d pools)"),
    Harness("H05f", h05f, h05f_pre, lambda tier: [{"two": False, "_timeout": 600, "_path_timeout": 60}] + ([{"two": True, "_timeout": 1800, "_path_timeout": 60}] if tier == "thorough" else []),
            kind="finite selection, exhaustive",
            encodes=["dns.rdtypes.txtbase.TXTBase.to_styled_text", "dns.rdata._escapify_unicode", "dns.rdata._escapify", "dns.tokenizer.Token.unescape_to_bytes",
                     "dns.rdtypes.txtbase.TXTBase.from_text"],
            bound="6 TXT-like types x 20 pooled character-strings (thorough: pairs of strings) written with txt_is_utf8=True", stubs=["E3b"],
            outside="other strings (str.decode / str.isprintable are C code: a symbolic string would be realized)"),
    Harness("H05g", h05g, h05g_pre, lambda tier: [{"ti": i, "_timeout": 600, "_path_timeout": 60} for i in range(len(CHUNKED))], kind="finite selection, exhaustive",
            encodes=["dns.rdata._wordbreak", "dns.rdata._styled_base64ify", "dns.rdata._styled_hexify", "dns.rdata.GenericRdata.to_styled_text", "dns.rdata.from_text"],
            bound="8 types with a base64 / hex field x 10 pooled data values (1 .. 33 octets) x chunk sizes 0 .. 9 (every residue of the encoded length), ordinary and generic form",
            stubs=[], outside="larger chunk sizes (C09/H09a uses 16, 32, 40 on zones)"),
    Harness("H05c", h05c, h05c_pre, h05c_shards, kind="finite selection",
            encodes=["dns.rdata.Rdata.to_generic", "dns.rdata.GenericRdata.to_styled_text", "dns.rdata.from_text", "dns.rdata.GenericRdata.from_text"],
            bound="generic form of every type's specimen parsed as the known type; unknown type 65280 with 10 pooled data values", stubs=[], outside="symbolic data (hex conversion realizes)"),
    Harness("H05c2", h05c2, h05c2_pre, lambda tier: [{"_timeout": 900, "_path_timeout": 60}], kind="finite selection, exhaustive",
            encodes=["dns.rdata.from_text", "dns.rdata.GenericRdata.from_text", "dns.tokenizer.Tokenizer.as_name"],
            bound="5 name-bearing types x 5 names x origin in {none, example., sub.example.} x relativize_to in the same set x relativize on/off", stubs=[], outside="other types"),
    Harness("H05d", h05d, h05d_pre, lambda tier: [{"type": "GPOS", "_timeout": 600}], kind="finite selection (float text)",
            encodes=["dns.rdtypes.ANY.LOC.LOC.from_text", "dns.rdtypes.ANY.LOC.LOC._to_wire", "dns.rdtypes.ANY.GPOS.GPOS.from_text"],
            bound="3 GPOS token positions x 34 numeric spellings (range boundaries, signs, exponents, malformed); LOC is the recorded finding F-C05-loc (witness replayed, not claimed)", stubs=[], outside="all other float values (floating point is outside this technique's reach); LOC numeric fields"),
    Harness("H05e", h05e, h05e_pre, lambda tier: [{"_timeout": 900}], kind="universal over the chunk size",
            encodes=["dns.rdata._styled_base64ify", "dns.rdata._styled_hexify", "dns.rdata._wordbreak"],
            bound="chunk size 0..40 symbolic, 8 base64 / hex types with a 40-octet field", stubs=[], outside="other separators"),
]
