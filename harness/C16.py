"""C16  Stub resolution reaches the documented outcome under every fault sequence."""

import vf.prelude  # noqa: F401
from vf.api import Harness, S, concrete, hit

import dns.asyncresolver
import dns.exception
import dns.flags
import dns.message
import dns.name
import dns.nameserver
import dns.rcode
import dns.rdataclass
import dns.rdatatype
import dns.resolver
import dns.rrset

PROPERTY = "C16"


class T:
    """E7: an exact instant / duration in milliseconds.  The resolver mixes integer seconds (scripted clock advances,
    lifetime, timeout) with the float back-off 0.1, 0.2, ... s; IEEE arithmetic on a symbolic value makes z3 answer
    `unknown`, so the clock hands out this exact number type instead: +, -, comparisons with int / float / T."""
    __slots__ = ("ms",)

    def __init__(self, ms):
        self.ms = ms

    @staticmethod
    def of(x):
        if isinstance(x, T):
            return x
        if isinstance(x, float):
            r = round(x * 1000)
            if r / 1000 != x:
                raise AssertionError("clock model: %r is not a whole number of milliseconds" % (x,))
            return T(r)
        return T(x * 1000)

    def __add__(self, o):
        return T(self.ms + T.of(o).ms)

    __radd__ = __add__

    def __sub__(self, o):
        return T(self.ms - T.of(o).ms)

    def __rsub__(self, o):
        return T(T.of(o).ms - self.ms)

    def __neg__(self):
        return T(-self.ms)

    def __lt__(self, o):
        return self.ms < T.of(o).ms

    def __le__(self, o):
        return self.ms <= T.of(o).ms

    def __gt__(self, o):
        return self.ms > T.of(o).ms

    def __ge__(self, o):
        return self.ms >= T.of(o).ms

    def __eq__(self, o):
        return self.ms == T.of(o).ms

    def __ne__(self, o):
        return self.ms != T.of(o).ms

    def __bool__(self):
        return self.ms != 0

    def __float__(self):
        return self.ms / 1000

    def __format__(self, spec):
        return format(float(self), spec)

    def __repr__(self):
        return "T(%r ms)" % (self.ms,)

    __hash__ = None


class Clock:
    """E7: exact clock (see T) advanced by the scripted servers and by sleep(); `now` is in seconds (int or T)."""
    now = 1000

    @staticmethod
    def time():
        return T.of(Clock.now)

    @staticmethod
    def sleep(d):
        Clock.now = T.of(Clock.now) + d


dns.resolver.time = Clock
dns.asyncresolver.time = Clock

ANSWER, CNAME_ANSWER, NODATA, NXDOMAIN, SERVFAIL, REFUSED, MALFORMED, TRUNCATED, TIMEOUT, OSERR, YXDOMAIN = range(11)
NOUT = 11


def make_reply(request, outcome):
    with concrete():
        r = dns.message.make_response(request)
        q = request.question[0]
        if outcome == ANSWER and q.rdtype == dns.rdatatype.TXT:
            r.answer.append(dns.rrset.from_text(q.name.to_text(), 300, dns.rdataclass.to_text(q.rdclass), "TXT", '"x"'))
        elif outcome == ANSWER:
            r.answer.append(dns.rrset.from_text(q.name.to_text(), 300, "IN", "A", "10.0.0.1"))
        elif outcome == CNAME_ANSWER:
            r.answer.append(dns.rrset.from_text(q.name.to_text(), 60, "IN", "CNAME", "target.example."))
            r.answer.append(dns.rrset.from_text("target.example.", 300, "IN", "A", "10.0.0.2"))
        elif outcome == NXDOMAIN:
            r.set_rcode(dns.rcode.NXDOMAIN)
        elif outcome == SERVFAIL:
            r.set_rcode(dns.rcode.SERVFAIL)
        elif outcome == REFUSED:
            r.set_rcode(dns.rcode.REFUSED)
        elif outcome == YXDOMAIN:
            r.set_rcode(dns.rcode.YXDOMAIN)
        # as received from the network (the parser builds the rrset index that resolve_chaining uses)
        r = dns.message.from_wire(r.to_wire())
    return r


class Script:
    """Outcome and clock advance of the k-th query of the resolution; log of (server, tcp, qname)."""

    def __init__(self, outcomes, advances):
        self.outcomes = outcomes
        self.advances = advances
        self.k = 0
        self.log = []

    def next(self, server, request, max_size):
        k = self.k
        self.k += 1
        self.log.append((server, bool(max_size), request.question[0].name.to_text()))
        if k < len(self.outcomes):
            out, adv = self.outcomes[k], self.advances[k]
        else:
            out, adv = TIMEOUT, 2  # script exhausted: every further query times out, the clock keeps moving
        Clock.now = Clock.now + adv
        # make the outcome digit concrete on this path (one fork per kind) before building the reply untraced
        for c in range(NOUT):
            if out == c:
                out = c
                break
        if out == MALFORMED:
            raise dns.exception.FormError("scripted")
        if out == TRUNCATED:
            raise dns.message.Truncated(message=make_reply(request, NODATA))
        if out == TIMEOUT:
            raise dns.exception.Timeout(timeout=1)
        if out == OSERR:
            raise OSError("scripted")
        return make_reply(request, out)


class ScriptedNS(dns.nameserver.Nameserver):
    def __init__(self, idx, script):
        super().__init__()
        self.idx = idx
        self.script = script

    def __str__(self):
        return "ns%d" % self.idx

    def kind(self):
        return "scripted"

    def is_always_max_size(self):
        return False

    def answer_nameserver(self):
        return "10.9.9.%d" % self.idx

    def answer_port(self):
        return 53

    def query(self, request, timeout, source, source_port, max_size, one_rr_per_rrset=False, ignore_trailing=False):
        if not timeout > 0:
            raise AssertionError("non-positive timeout handed to a name server")
        return self.script.next(self.idx, request, max_size)

    async def async_query(self, request, timeout, source, source_port, max_size, backend, one_rr_per_rrset=False, ignore_trailing=False):
        if not timeout > 0:
            raise AssertionError("non-positive timeout handed to a name server")
        return self.script.next(self.idx, request, max_size)


_RES = {}


def get_resolver(kind):
    """Built once outside tracing (BaseResolver.reset() calls socket.gethostname()); re-initialised per path."""
    if kind not in _RES:
        with concrete():
            _RES[kind] = (dns.resolver.Resolver if kind == "sync" else dns.asyncresolver.Resolver)(configure=False)
    r = _RES[kind]
    r.domain = dns.name.root
    r.search = []
    r.use_search_by_default = False
    r.ndots = None
    r.rotate = False
    r.cache = None
    r.retry_servfail = False
    r.timeout = 2
    r.lifetime = 5
    r.flags = None
    r.keyname = None
    return r


class FakeBackend:
    async def sleep(self, d):
        Clock.sleep(d)


def drive(coro):
    try:
        coro.send(None)
    except StopIteration as e:
        return e.value
    raise AssertionError("coroutine suspended: a real awaitable was reached")


# ---------------------------------------------------------------- B6 reference decision table

def reference(nservers, outcomes, advances, tcp, retry_servfail, raise_on_no_answer, lifetime, timeout, qnames):
    """Expected (result, query log).  result = ('answer', qname, canonical) | ('nodata', qname) | exception class name."""
    now = 0
    k = 0
    log = []
    nx = 0
    for qname in qnames:
        servers = list(range(nservers))
        current = list(servers)
        backoff = 100  # ms
        retry = None
        done_name = False
        while not done_name:
            if retry is not None:
                server, use_tcp, bo = retry, True, 0
                retry = None
            else:
                bo = 0
                if not current:
                    if not servers:
                        return ("NoNameservers", log)
                    current = list(servers)
                    bo = backoff
                    backoff = min(backoff * 2, 2000)
                server = current.pop(0)
                use_tcp = tcp
            now = now + bo
            if now >= lifetime * 1000:
                return ("LifetimeTimeout", log)
            if k < len(outcomes):
                out, adv = outcomes[k], advances[k]
            else:
                out, adv = TIMEOUT, 2
            k += 1
            log.append((server, use_tcp, qname))
            now = now + adv * 1000
            if out in (ANSWER, CNAME_ANSWER):
                return (("answer", qname, "target.example." if out == CNAME_ANSWER else qname), log)
            if out == NODATA:
                if raise_on_no_answer:
                    return ("NoAnswer", log)
                return (("nodata", qname), log)
            if out == NXDOMAIN:
                nx += 1
                done_name = True
            elif out == YXDOMAIN:
                return ("YXDOMAIN", log)
            elif out == SERVFAIL:
                if not retry_servfail:
                    servers.remove(server)
            elif out == REFUSED:
                servers.remove(server)
            elif out in (MALFORMED, OSERR):
                servers.remove(server)
            elif out == TRUNCATED:
                if use_tcp:
                    servers.remove(server)
                else:
                    retry = server
            # TIMEOUT: keep the server
    return ("NXDOMAIN", log)


# ---------------------------------------------------------------- H16a fault sequences

def run_resolution(kind, nservers, outcomes, advances, tcp, retry_servfail, raise_on_no_answer, qname, search, cache=None, conf=None,
                   rdtype="A", rdclass="IN"):
    res = get_resolver(kind)
    if conf is not None:
        res.search, res.domain, res.ndots = conf
    script = Script(outcomes, advances)
    res.nameservers = [ScriptedNS(i, script) for i in range(nservers)]
    res.retry_servfail = retry_servfail
    res.cache = cache
    Clock.now = 0
    try:
        if kind == "sync":
            ans = res.resolve(qname, rdtype, rdclass, tcp=tcp, raise_on_no_answer=raise_on_no_answer, search=search)
        else:
            ans = drive(res.resolve(qname, rdtype, rdclass, tcp=tcp, raise_on_no_answer=raise_on_no_answer, search=search, backend=FakeBackend()))
    except (dns.resolver.NXDOMAIN, dns.resolver.YXDOMAIN, dns.resolver.NoAnswer, dns.resolver.NoNameservers, dns.resolver.LifetimeTimeout) as e:
        return type(e).__name__, script.log
    if ans.rrset is None:
        return ("nodata", ans.qname.to_text()), script.log
    return ("answer", ans.qname.to_text(), ans.canonical_name.to_text()), script.log


def h16a(o1: int, o2: int, o3: int, o4: int, a1: int, a2: int, a3: int, a4: int, retry_servfail: bool, raise_on_no_answer: bool) -> bool:
    """For every outcome sequence and clock advance, resolve() gives exactly the documented result and sends exactly the expected (server, transport) sequence."""
    n = S("depth")
    nservers, tcp = S("servers"), S("tcp")
    outcomes = [o1, o2, o3, o4][:n]
    advances = [a1, a2, a3, a4][:n]
    qnames = ["www.example."]
    got, log = run_resolution(S("kind"), nservers, outcomes, advances, tcp, retry_servfail, raise_on_no_answer, "www.example.", False)
    want, wlog = reference(nservers, outcomes, advances, tcp, retry_servfail, raise_on_no_answer, 5, 2, qnames)
    hit("resolved")
    if got != want:
        return False
    return [(s, t) for s, t, q in log] == [(s, t) for s, t, q in wlog]


def h16a_pre(o1, o2, o3, o4, a1, a2, a3, a4, retry_servfail, raise_on_no_answer):
    n = S("depth")
    os_, as_ = [o1, o2, o3, o4], [a1, a2, a3, a4]
    for i in range(4):
        if i < n:
            if not (0 <= os_[i] < NOUT and 0 <= as_[i] <= 3):
                return False
        elif not (os_[i] == 0 and as_[i] == 0):
            return False
    return o1 == S("o1")


def h16a_shards(tier):
    out = []
    for kind in ("sync", "async"):
        for servers in (1, 2):
            for tcp in (False, True):
                for o1 in range(NOUT):
                    if o1 in (ANSWER, CNAME_ANSWER, NODATA, YXDOMAIN) and (servers == 2 or tcp):
                        continue  # first query already final: one configuration is enough
                    depth = 3 if tier == "quick" else 4
                    if kind == "async" and tier == "quick" and (servers == 1 or tcp):
                        continue
                    out.append({"kind": kind, "servers": servers, "tcp": tcp, "o1": o1, "depth": depth, "_timeout": 1500, "_path_timeout": 120})
    return out


# ---------------------------------------------------------------- H16e candidate names (search list / ndots) and NXDOMAIN over all candidates

def h16e(nlabels: int, absolute: bool, search: bool, ndots: int, nsearch: int, use_domain: bool) -> bool:
    """Candidate names follow the search-list / ndots rules; NXDOMAIN only after every candidate got NXDOMAIN, carrying all of them."""
    res = get_resolver("sync")
    labels = [b"a", b"b", b"c"][:nlabels]
    qname = dns.name.Name(labels + ([b""] if absolute else []))
    slist = [dns.name.from_text("s1.example."), dns.name.from_text("s2.example.")][:nsearch]
    res.search = list(slist)
    res.domain = dns.name.from_text("dom.example.") if use_domain else dns.name.root
    res.ndots = None if ndots < 0 else ndots
    got = res._get_qnames_to_try(qname, search)
    # reference (B6a)
    if absolute:
        want = [qname]
    else:
        ab = dns.name.Name(labels + [b""])
        if not search:
            want = [ab]
        else:
            sl = slist if slist else ([res.domain] if use_domain else [])
            want = [dns.name.Name(labels + list(s.labels)) for s in sl]
            eff = 1 if ndots < 0 else ndots
            if nlabels > eff:
                want = [ab] + want
            else:
                want = want + [ab]
    hit("names")
    if [n.labels for n in got] != [n.labels for n in want]:
        return False
    # every candidate answers NXDOMAIN: the exception lists them all, in order, and each was asked once
    outcomes = [NXDOMAIN] * len(want)
    r, log = run_resolution("sync", 1, outcomes, [0] * len(want), False, False, True, qname, search,
                            conf=(list(slist), res.domain, res.ndots))
    res.search, res.domain, res.ndots = [], dns.name.root, None
    return r == "NXDOMAIN" and [q for s, t, q in log] == [n.to_text() for n in want]


def h16e_pre(nlabels, absolute, search, ndots, nsearch, use_domain):
    return 1 <= nlabels <= 3 and -1 <= ndots <= 3 and 0 <= nsearch <= 2


# ---------------------------------------------------------------- H16c CNAME chaining

def h16c(chain: int, ttl0: int, ttl1: int, tail_ttl: int, has_answer: bool) -> bool:
    """resolve_chaining: canonical name at the end of the chain, ChainTooLong beyond the limit, minimum TTL over chain and answer."""
    with concrete():
        q = dns.message.make_query("n0.example.", "A", id=1)
        r = dns.message.make_response(q)
    for i in range(chain):
        rr = r.find_rrset(r.answer, dns.name.from_text("n%d.example." % i), dns.rdataclass.IN, dns.rdatatype.CNAME, create=True)
        rr.add(dns.rdata.from_text("IN", "CNAME", "n%d.example." % (i + 1)), ttl0 if i == 0 else ttl1)
    if has_answer:
        rr = r.find_rrset(r.answer, dns.name.from_text("n%d.example." % chain), dns.rdataclass.IN, dns.rdatatype.A, create=True)
        rr.add(dns.rdata.from_text("IN", "A", "10.0.0.1"), tail_ttl)
    limit = dns.message.MAX_CHAIN  # the documented bound on the chain length
    try:
        res = r.resolve_chaining()
    except dns.message.ChainTooLong:
        return chain >= limit
    hit("chained")
    if chain >= limit:
        return False
    if res.canonical_name.to_text() != "n%d.example." % chain:
        return False
    ttls = ([ttl0] if chain >= 1 else []) + ([ttl1] if chain >= 2 else []) + ([tail_ttl] if has_answer else [])
    if has_answer:
        if res.answer is None or res.minimum_ttl != min(ttls):
            return False
    elif res.answer is not None:
        return False
    return len(res.cnames) == chain


def h16c_pre(chain, ttl0, ttl1, tail_ttl, has_answer):
    return chain == S("chain") and 0 <= ttl0 <= 2**31 - 1 and 0 <= ttl1 <= 2**31 - 1 and 0 <= tail_ttl <= 2**31 - 1


# ---------------------------------------------------------------- H16d the lifetime budget

def h16d(start: int, now: int, lifetime: int, timeout: int) -> bool:
    """_compute_timeout: LifetimeTimeout iff the lifetime is used up (or the clock went back by more than 1 s); else min(remaining, timeout) > 0."""
    res = get_resolver("sync")
    res.timeout = timeout
    Clock.now = now
    try:
        t = res._compute_timeout(start, lifetime)
    except dns.resolver.LifetimeTimeout:
        res.timeout = 2
        d = now - start
        return d >= lifetime or d < -1
    res.timeout = 2
    hit("budget")
    d = now - start
    if d < -1 or (d >= lifetime):
        return False
    if d < 0:
        d = 0
    rem = lifetime - d
    return t == (rem if rem < timeout else timeout) and t > 0


def h16d_pre(start, now, lifetime, timeout):
    return 0 <= start <= 10**9 and 0 <= now <= 10**9 and 1 <= lifetime <= 10**6 and 1 <= timeout <= 10**6


# ---------------------------------------------------------------- H16f caching of results

def h16f(o1: int, second_type_a: bool) -> bool:
    """Results are cached under (qname, type, class) - NXDOMAIN under type ANY - and a second resolution is answered from the cache without a query."""
    cache = dns.resolver.Cache() if S("cache") == "simple" else dns.resolver.LRUCache(4)
    got, log = run_resolution("sync", 1, [o1], [0], False, False, False, "www.example.", False, cache=cache)
    name = dns.name.from_text("www.example.")
    k_a = (name, dns.rdatatype.A, dns.rdataclass.IN)
    k_any = (name, dns.rdatatype.ANY, dns.rdataclass.IN)
    hit("cached")
    if o1 in (ANSWER, CNAME_ANSWER, NODATA):
        if cache.get(k_a) is None or cache.get(k_any) is not None:
            return False
    elif o1 == NXDOMAIN:
        if cache.get(k_any) is None or cache.get(k_a) is not None:
            return False
    else:
        return cache.get(k_a) is None and cache.get(k_any) is None
    # second resolution: no query is sent
    got2, log2 = run_resolution("sync", 1, [SERVFAIL], [0], False, False, False, "www.example.", False, cache=cache)
    Clock.now = 0
    return got2 == got and len(log2) == 0


def h16f_pre(o1, second_type_a):
    return 0 <= o1 <= 5 and second_type_a


CLASSES = ["IN", "CH"]


def h16f2(o1: int, c1: int, c2: int, is_async: bool) -> bool:
    """The cache key includes the class: a result learned in one class (answer, no data, NXDOMAIN) answers a later resolution of the same
    name and type in that class only; in the other class the server is asked."""
    cache = dns.resolver.Cache() if S("cache") == "simple" else dns.resolver.LRUCache(4)
    kind = "async" if is_async else "sync"
    got, log = run_resolution(kind, 1, [o1], [0], False, False, False, "www.example.", False, cache=cache, rdtype="TXT", rdclass=CLASSES[c1])
    if len(log) != 1:
        return False
    got2, log2 = run_resolution(kind, 1, [ANSWER], [0], False, False, False, "www.example.", False, cache=cache, rdtype="TXT", rdclass=CLASSES[c2])
    Clock.now = 0
    hit("second")
    if c1 == c2:
        return got2 == got and len(log2) == 0
    return len(log2) == 1 and got2 == ("answer", "www.example.", "www.example.")


def h16f2_pre(o1, c1, c2, is_async):
    return o1 in (ANSWER, NODATA, NXDOMAIN) and 0 <= c1 <= 1 and 0 <= c2 <= 1


HARNESSES = [
    Harness("H16a", h16a, h16a_pre, h16a_shards, kind="finite selection of outcomes, universal-ish clock advances",
            encodes=["dns.resolver._Resolution.next_request", "dns.resolver._Resolution.next_nameserver", "dns.resolver._Resolution.query_result",
                     "dns.resolver.Resolver.resolve", "dns.asyncresolver.Resolver.resolve", "dns.resolver.BaseResolver._compute_timeout",
                     "dns.resolver.Answer.__init__", "dns.message.QueryMessage.resolve_chaining"],
            bound="every sequence of 3 (thorough 4) per-query outcomes over 11 kinds (answer, CNAME answer, no data, NXDOMAIN, SERVFAIL, REFUSED, malformed, truncated, timeout, OSError, YXDOMAIN), clock advance 0..3 s per query, lifetime 5 s, timeout 2 s; 1-2 servers; tcp on/off; retry_servfail, raise_on_no_answer symbolic; sync resolver (async: 2 servers UDP quick, all thorough); result and exact (server, transport) sequence compared with the reference table",
            stubs=["E7", "E8", "E6"], outside="longer sequences; sub-second timing; DoH/DoQ servers; rotate"),
    Harness("H16f2", h16f2, h16f2_pre, lambda tier: [{"cache": c, "_timeout": 600, "_path_timeout": 120} for c in ("simple", "lru")], kind="finite selection, exhaustive",
            encodes=["dns.resolver._Resolution.next_request", "dns.resolver._Resolution.query_result", "dns.resolver.Cache.get", "dns.resolver.Cache.put",
                     "dns.resolver.LRUCache.get", "dns.resolver.LRUCache.put"],
            bound="first resolution in class IN or CH ending in answer / no data / NXDOMAIN, second resolution of the same name and type in class IN or CH; both cache classes; sync and async",
            stubs=["E7", "E6", "E13"], outside="other classes and types"),
    Harness("H16e", h16e, h16e_pre, lambda tier: [{"_timeout": 900, "_path_timeout": 120}], kind="finite selection",
            encodes=["dns.resolver.BaseResolver._get_qnames_to_try", "dns.resolver._Resolution.next_request", "dns.resolver.NXDOMAIN.__init__"],
            bound="query names of 1-3 labels, relative / absolute, search on/off, ndots None/0..3, search list of 0-2 entries, domain set or root", stubs=["E7", "E6"], outside=""),
    Harness("H16c", h16c, h16c_pre, lambda tier: [{"chain": c, "_timeout": 300, "_path_timeout": 120} for c in (0, 1, 2, 3, 15, 16, 17, 18)], kind="universal over TTLs",
            encodes=["dns.message.QueryMessage.resolve_chaining"], bound="CNAME chains of length 0,1,2,3,15,16,17,18 with symbolic TTLs (31 bit); answer present or not",
            stubs=["E6"], outside="negative-answer SOA TTLs"),
    Harness("H16d", h16d, h16d_pre, lambda tier: [{"_timeout": 300}], kind="universal",
            encodes=["dns.resolver.BaseResolver._compute_timeout"], bound="start, now up to 10^9, lifetime and timeout up to 10^6, all symbolic integers", stubs=["E7"],
            outside="fractional seconds"),
    Harness("H16f", h16f, h16f_pre, lambda tier: [{"cache": c, "_timeout": 600} for c in ("simple", "lru")], kind="finite selection",
            encodes=["dns.resolver._Resolution.next_request", "dns.resolver._Resolution.query_result", "dns.resolver.Cache.put", "dns.resolver.LRUCache.put"],
            bound="first-query outcome in 6 kinds x both cache classes; second resolution must be answered from the cache", stubs=["E7", "E6"], outside=""),
]
