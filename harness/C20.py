"""C20  B-tree zone flags, delegation index and bounds are a function of zone content."""

import vf.prelude  # noqa: F401
from vf.api import Harness, S, concrete, hit

import dns.btreezone
import dns.name
import dns.rdataclass
import dns.rdataset
import dns.rdatatype
import dns.zone

from harness.oracles import EQUAL, SUBDOMAIN, fold, ref_fullcompare

PROPERTY = "C20"
ORIGIN = dns.name.from_text("example.")
IN = dns.rdataclass.IN
NS, A, TXT, SOA = dns.rdatatype.NS, dns.rdatatype.A, dns.rdatatype.TXT, dns.rdatatype.SOA

# name pool built for cuts: index -> relative labels
POOL = ["@", "a", "b.a", "c.b.a", "x.c.b.a", "d", "e.d", "*.d"]
REL = [dns.name.empty if p == "@" else dns.name.from_text(p, None) for p in POOL]
ABS = [n.derelativize(ORIGIN) for n in REL]
NS_RDS = dns.rdataset.from_text("IN", "NS", 300, "ns.example.")
A_RDS = dns.rdataset.from_text("IN", "A", 300, "10.0.0.1")
A2_RDS = dns.rdataset.from_text("IN", "A", 300, "10.0.0.2")

# initial content: (pool index, type)
INITIAL = [(0, "SOA"), (0, "NS"), (1, "NS"), (2, "A"), (5, "A"), (6, "A")]
LOAD_ORDERS = [[0, 1, 2, 3, 4, 5], [0, 1, 5, 4, 3, 2], [0, 1, 3, 2, 5, 4], [0, 1, 4, 2, 5, 3]]


def is_proper_ancestor(i, j):
    """POOL[i] is a proper ancestor of POOL[j] (both below the apex)."""
    if i == 0 or i == j:
        return False
    li, lj = REL[i].labels, REL[j].labels
    return len(li) < len(lj) and lj[len(lj) - len(li):] == li


def make_zone(relativize, order):
    with concrete():
        z = dns.btreezone.Zone(ORIGIN, relativize=relativize)
        with z.writer(True) as txn:
            for k in LOAD_ORDERS[order]:
                i, t = INITIAL[k]
                name = REL[i] if relativize else ABS[i]
                if t == "SOA":
                    txn.add(name, dns.rdataset.from_text("IN", "SOA", 300, "ns.example. hostmaster.example. 1 2 3 4 5"))
                elif t == "NS":
                    txn.add(name, NS_RDS)
                else:
                    txn.add(name, A_RDS)
    return z


ADD_NS, DEL_NS, ADD_A, REPLACE_A, DEL_A, DEL_NAME = range(6)


def apply(txn, relativize, op, n):
    name = REL[n] if relativize else ABS[n]
    if op == ADD_NS:
        txn.add(name, NS_RDS)
    elif op == DEL_NS:
        txn.delete(name, NS)
    elif op == ADD_A:
        txn.add(name, A_RDS)
    elif op == REPLACE_A:
        txn.replace(name, A2_RDS)
    elif op == DEL_A:
        txn.delete(name, A)
    else:
        txn.delete(name)


def content(z, relativize):
    """has[i] = set of types present at POOL[i] in the committed zone."""
    has = []
    for i in range(len(POOL)):
        name = REL[i] if relativize else ABS[i]
        node = z.get_node(name)
        types = []
        if node is not None:
            for rds in node:
                types.append(rds.rdtype)
        has.append(types)
    return has


def nested_cuts(has):
    ns = [i for i in range(1, len(POOL)) if NS in has[i]]
    return any([is_proper_ancestor(i, j) for i in ns for j in ns])


def derived_ok(z, relativize, has):
    """B7: flags, delegation index and iteration order recomputed from the content alone."""
    ns = [i for i in range(1, len(POOL)) if NS in has[i]]
    cuts = [j for j in ns if not any([is_proper_ancestor(i, j) for i in ns])]
    version = z._versions[-1]
    names = []
    for i in range(len(POOL)):
        name = REL[i] if relativize else ABS[i]
        node = version.nodes.get(name)
        if (node is not None) != (len(has[i]) > 0):
            return False
        if node is None:
            continue
        names.append(name)
        want = 0
        if i == 0:
            want |= 1
        if i in cuts:
            want |= 2
        if any([is_proper_ancestor(c, i) for c in cuts]):
            want |= 4
        if int(node.flags) != want:
            return False
    index = [k for k in version.delegations]
    want_index = sorted([(REL[j] if relativize else ABS[j]) for j in cuts])
    if index != want_index:
        return False
    # names iterate in canonical order
    it = [k for k in version.nodes]
    return it == sorted(names) and len(it) == len(names)


def ever_nested(ops):
    """Does the NS-owner set (initially {a}) ever contain a name beneath another one while these operations run?"""
    ns = [1]
    for o, n in ops:
        if o == ADD_NS and n != 0 and n not in ns:
            ns = ns + [n]
        elif o in (DEL_NS, DEL_NAME) and n in ns:
            ns = [x for x in ns if x != n]
        if any([is_proper_ancestor(i, j) for i in ns for j in ns]):
            return True
    return False


def h20a(o1: int, n1: int, o2: int, n2: int, o3: int, n3: int) -> bool:
    """After any short history of transactions adding / removing NS and other records at, above and below cuts, flags + delegation index + order equal what the content defines."""
    relativize = S("relativize")
    z = make_zone(relativize, S("order"))
    has = content(z, relativize)
    if not derived_ok(z, relativize, has):
        return False
    plan = S("plan")  # list of transaction sizes, e.g. [2] or [1, 1]
    ops = [(o1, n1), (o2, n2), (o3, n3)]
    if S("skip_nested") and ever_nested(ops[:sum(plan)]):
        return True  # an NS owner beneath another NS owner at some point: recorded finding F-C20-nested (H20n is its witness)
    k = 0
    for size in plan:
        with z.writer() as txn:
            for _ in range(size):
                apply(txn, relativize, ops[k][0], ops[k][1])
                k += 1
        has = content(z, relativize)
        if not derived_ok(z, relativize, has):
            return False
    hit("history")
    return True


def h20a_pre(o1, n1, o2, n2, o3, n3):
    nops = sum(S("plan"))
    ops = [(o1, n1), (o2, n2), (o3, n3)]
    for i in range(3):
        o, n = ops[i]
        if i < nops:
            if not (0 <= o <= 5 and 0 <= n < len(POOL)):
                return False
            if n == 0 and o in (DEL_NS, DEL_NAME):
                return False  # (removing the apex NS / the apex itself is not a delegation matter)
        elif not (o == 0 and n == 0):
            return False
    return o1 == S("o1")


def h20a_shards(tier):
    out = []
    for rel in (True, False):
        for plan in ([2], [1, 1]):
            for o1 in range(6):
                for order in ((0,) if tier == "quick" else (0, 1, 2, 3)):
                    out.append({"relativize": rel, "plan": plan, "o1": o1, "order": order, "skip_nested": True, "_timeout": 1200, "_path_timeout": 60})
    if tier == "thorough":
        for rel in (True, False):
            for o1 in range(6):
                out.append({"relativize": rel, "plan": [1, 2], "o1": o1, "order": 0, "skip_nested": True, "_timeout": 3600, "_path_timeout": 60})
    return out


def h20n(first: int) -> bool:
    """Nested cuts: the derived state must not depend on the order in which the two NS owners were added (recorded finding)."""
    relativize = S("relativize")
    z = make_zone(relativize, 0)
    order = [2, 1] if first == 0 else [1, 2]   # pool: a (1) already is a cut; add NS at b.a (2) ... or remove and re-add
    with z.writer() as txn:
        apply(txn, relativize, DEL_NS, 1)
    with z.writer() as txn:
        for n in order:
            apply(txn, relativize, ADD_NS, n)
    has = content(z, relativize)
    hit("nested")
    return derived_ok(z, relativize, has)


# ---------------------------------------------------------------- H20b bounds

# fixed zone for bounds queries: relative owner -> types
BZONE = [("@", ["SOA", "NS"]), ("a", ["NS"]), ("b.a", ["A"]), ("c.b.a", ["A"]), ("d", ["A"]), ("e.d", ["A"]), ("x.y.d", ["A"]), ("*.d", ["A"]), ("m", ["A"])]
SUFFIXES = ["", "a", "b.a", "d", "y.d", "m"]


def make_bzone(relativize):
    with concrete():
        z = dns.btreezone.Zone(ORIGIN, relativize=relativize)
        with z.writer(True) as txn:
            for owner, types in BZONE:
                rel = dns.name.empty if owner == "@" else dns.name.from_text(owner, None)
                name = rel if relativize else rel.derelativize(ORIGIN)
                for t in types:
                    if t == "SOA":
                        txn.add(name, dns.rdataset.from_text("IN", "SOA", 300, "ns.example. hostmaster.example. 1 2 3 4 5"))
                    elif t == "NS":
                        txn.add(name, NS_RDS)
                    else:
                        txn.add(name, A_RDS)
    return z


def absl(text):
    return (dns.name.empty if text in ("@", "") else dns.name.from_text(text, None)).derelativize(ORIGIN).labels


def less(a, b):
    return ref_fullcompare(list(a), list(b))[1] < 0


def h20b(l0: int, l1: int) -> bool:
    """bounds(q): nearest predecessor / successor among non-occluded names, closest encloser counting empty non-terminals, at-or-below-delegation, for any query name."""
    relativize = S("relativize")
    z = make_bzone(relativize)
    nlab = S("nlabels")
    suffix = SUFFIXES[S("suffix")]
    rel_labels = [bytes([l0]), bytes([l1])][:nlab] + ([] if suffix == "" else list(dns.name.from_text(suffix, None).labels))
    qabs = tuple(rel_labels) + ORIGIN.labels
    q = dns.name.Name(rel_labels) if relativize else dns.name.Name(qabs)
    b = z._versions[-1].bounds(q)
    hit("bounds")
    # ---- oracle (absolute label tuples)
    names = [absl(o) for o, _ in BZONE]
    cuts = [absl("a")]
    def below(n, c):  # n strictly beneath c  # noqa: E306
        return ref_fullcompare(list(n), list(c))[0] == SUBDOMAIN
    def at_or_below(n, c):  # noqa: E306
        return ref_fullcompare(list(n), list(c))[0] in (SUBDOMAIN, EQUAL)
    cut = None
    for c in cuts:
        if at_or_below(qabs, c):
            cut = c
    target = cut if cut is not None else qabs
    visible = [n for n in names if not any([below(n, c) for c in cuts])]
    left = None
    right = None
    for n in visible:
        if not less(tuple(target), n) :  # n <= target
            if left is None or less(left, n):
                left = n
        else:
            if right is None or less(n, right):
                right = n
    # closest encloser: longest suffix of q that is a visible name or a suffix of one (ENTs), at least the origin
    best = len(ORIGIN.labels)
    for n in visible:
        rel, _, common = ref_fullcompare(list(qabs), list(n))
        if common > best:
            best = common
    if best > len(qabs):
        best = len(qabs)
    ce = qabs[len(qabs) - best:]
    def norm(name):  # noqa: E306
        return None if name is None else tuple([fold(x) for x in name.derelativize(ORIGIN).labels])
    def nf(labels):  # noqa: E306
        return None if labels is None else tuple([fold(x) for x in labels])
    if norm(b.left) != nf(left) or norm(b.right) != nf(right):
        return False
    if norm(b.closest_encloser) != nf(ce):
        return False
    if b.is_delegation != (cut is not None):
        return False
    return b.is_equal == (ref_fullcompare(list(left), list(qabs))[0] == EQUAL)


def h20b_pre(l0, l1):
    n = S("nlabels")
    if not (0 <= l0 <= 255 and 0 <= l1 <= 255):
        return False
    if n < 2 and l1 != 0:
        return False
    if n < 1 and l0 != 0:
        return False
    return True


def h20b_shards(tier):
    out = []
    for rel in (True, False):
        for suf in range(len(SUFFIXES)):
            for n in ((0, 1) if tier == "quick" else (0, 1, 2)):
                out.append({"relativize": rel, "suffix": suf, "nlabels": n, "_timeout": 900, "_path_timeout": 60})
    return out


# ---------------------------------------------------------------- H20c loading from text

def h20c(mask: int, origin_arg: bool, relativize: bool, absolute_owners: bool) -> bool:
    """A zone loaded from text - origin given as an argument or only by a $ORIGIN directive, owners relative or absolute -
    has exactly the flags, delegation index and order its content implies."""
    lines = ["$ORIGIN example."]
    members = [(0, "SOA"), (0, "NS")] + [INITIAL[k] for k in range(2, len(INITIAL)) if (mask >> (k - 2)) % 2 == 1]
    for i, t in members:
        owner = ABS[i].to_text() if absolute_owners else POOL[i]
        rdata = {"SOA": "ns.example. hostmaster.example. 1 2 3 4 5", "NS": "ns.example.", "A": "10.0.0.1"}[t]
        lines.append("%s 300 IN %s %s" % (owner, t, rdata))
    text = "\n".join(lines) + "\n"
    z = dns.zone.from_text(text, origin="example." if origin_arg else None, relativize=relativize, zone_factory=dns.btreezone.Zone)
    hit("loaded")
    has = content(z, relativize)
    if nested_cuts(has):
        return True
    return derived_ok(z, relativize, has)


def h20c_pre(mask, origin_arg, relativize, absolute_owners):
    return 0 <= mask < 2 ** (len(INITIAL) - 2)


HARNESSES = [
    Harness("H20c", h20c, h20c_pre, lambda tier: [{"_timeout": 900, "_path_timeout": 60}], kind="finite selection, exhaustive",
            encodes=["dns.btreezone.WritableVersion._is_origin", "dns.btreezone.WritableVersion._maybe_cow_with_name", "dns.zone.from_text",
                     "dns.zonefile.Reader.read", "dns.zone.Transaction._set_origin"],
            bound="every subset of the 4 non-apex rrsets of the initial family, loaded from text with the origin as an argument or from $ORIGIN only, relativize on / off, relative or absolute owner spelling",
            stubs=["E6"], outside="other contents"),
    Harness("H20a", h20a, h20a_pre, h20a_shards, kind="finite selection of operations, exhaustive",
            encodes=["dns.btreezone.WritableVersion._maybe_cow_with_name", "dns.btreezone.WritableVersion.put_rdataset",
                     "dns.btreezone.WritableVersion.delete_rdataset", "dns.btreezone.WritableVersion.delete_node",
                     "dns.btreezone.WritableVersion.update_glue_flag", "dns.btreezone.Delegations.get_delegation", "dns.btreezone.Delegations.is_glue",
                     "dns.btreezone.ImmutableVersion.__init__"],
            bound="zone with a cut (a NS), glue beneath it and ordinary names; pool of 8 names (apex, a, b.a, c.b.a, x.c.b.a, d, e.d, *.d) x 6 operations (add/delete NS, add/replace/delete A, delete name); one transaction of 2 operations and two transactions of 1 operation (thorough: 1+2 and 4 initial load orders); relativized and absolute; states with nested cuts are the recorded finding F-C20-nested",
            stubs=["E6"], outside="> 3 operations; names outside the pool"),
    Harness("H20n", h20n, lambda first: 0 <= first <= 1, lambda tier: [], kind="witness of the recorded finding F-C20-nested (not run as a check)",
            encodes=["dns.btreezone.WritableVersion.put_rdataset"], bound="", stubs=[], outside=""),
    Harness("H20b", h20b, h20b_pre, h20b_shards, kind="universal over the query labels",
            encodes=["dns.btreezone.ImmutableVersion.bounds", "dns.btreezone.Delegations.get_delegation", "dns.btree.Cursor.seek", "dns.btree.Cursor.prev",
                     "dns.btree.Cursor.next", "dns.name.Name.fullcompare"],
            bound="fixed 9-name zone (cut, glue, empty non-terminal, wildcard); query = 0-1 (2) symbolic one-octet labels over one of 6 suffixes (apex, the cut, below the cut, an ordinary name, an empty non-terminal, a leaf); relativized and absolute",
            stubs=["E6"], outside="longer query names; other zones"),
]
