"""Small helpers shared by harness modules."""

import contextlib


class Hang(Exception):
    """Raised by a step budget: the code under check looped more often than any terminating run can."""


@contextlib.contextmanager
def step_budget(cls, method, limit):
    """Count calls of cls.method while the block runs; more than `limit` calls raise Hang
    (a termination violation that replays concretely)."""
    orig = getattr(cls, method)
    n = [0]

    def counted(self, *a, **k):
        n[0] += 1
        if n[0] > limit:
            raise Hang("%s.%s called more than %d times" % (cls.__name__, method, limit))
        return orig(self, *a, **k)

    setattr(cls, method, counted)
    try:
        yield n
    finally:
        setattr(cls, method, orig)
