"""Small helpers shared by harness modules."""

import contextlib


class Hang(Exception):
    """Raised by a step budget: the code under check looped more often than any terminating run can."""


@contextlib.contextmanager
def step_budget(cls, method, limit):
    """Count calls of cls.method while the block runs; more than `limit` calls raise Hang
    (a termination violation that replays concretely)."""
    orig = getattr(cls, method)
    n = [0]

    def counted(self, *a, **k):
        n[0] += 1
        if n[0] > limit:
            raise Hang("%s.%s called more than %d times" % (cls.__name__, method, limit))
        return orig(self, *a, **k)

    setattr(cls, method, counted)
    try:
        yield n
    finally:
        setattr(cls, method, orig)


@contextlib.contextmanager
def time_budget(seconds):
    """Wall-clock budget for one call of the code under check (used where a non-terminating loop has no method to count,
    e.g. a bytearray grown one octet at a time): exceeding it raises Hang, which replays concretely."""
    import signal

    fired = []

    def on_alarm(signum, frame):
        fired.append(1)  # (visible to the caller even if the code under check converts the exception)
        raise Hang("call did not finish within %s s" % seconds)

    old = signal.signal(signal.SIGALRM, on_alarm)
    signal.setitimer(signal.ITIMER_REAL, seconds)
    try:
        yield fired
    finally:
        signal.setitimer(signal.ITIMER_REAL, 0)
        signal.signal(signal.SIGALRM, old)
