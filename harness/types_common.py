"""Shared by C02 / C04 / C05 / C07 / C15: the run-time list of implemented record types,
short specimens, minimal accepted RDATA lengths."""

import dns.exception
import dns.name
import dns.rdata
import dns.rdataclass
import dns.rdatatype

IN, CH = dns.rdataclass.IN, dns.rdataclass.CH
EX = dns.name.from_text("example.")

# one short master-file RDATA per type (absolute names); types without a text form have None
SPECIMENS = {
    "A": "10.0.0.1", "NS": "n.example.", "CNAME": "c.example.", "SOA": "m.example. r.example. 1 2 3 4 5",
    "WKS": "10.0.0.2 6 25", "PTR": "p.example.", "HINFO": '"c" "o"', "MX": "10 m.example.", "TXT": '"t"',
    "RP": "m.example. t.example.", "AFSDB": "1 a.example.", "X25": '"123"', "ISDN": '"i" "s"', "RT": "2 r.example.",
    "NSAP": "0x4700", "NSAP-PTR": "n.example.", "SIG": "A 1 2 3600 20200101000000 20030101000000 2143 s.example. AQID",
    "KEY": "256 3 8 AQID", "PX": "1 m.example. x.example.", "GPOS": "1.5 2.5 3.5", "AAAA": "::1",
    "LOC": "1 2 3 N 4 5 6 E 7m 8m 9m 10m", "SRV": "1 2 3 s.example.", "NAPTR": '1 2 "f" "s" "r" n.example.',
    "KX": "1 k.example.", "CERT": "1 2 3 AQID", "DNAME": "d.example.", "OPT": None, "APL": "1:10.0.0.0/8",
    "DS": "1 8 200 0102", "SSHFP": "1 1 0102", "IPSECKEY": "10 3 2 g.example. AQID",
    "RRSIG": "A 1 2 3600 20200101000000 20030101000000 2143 s.example. AQID", "NSEC": "n.example. A MX",
    "DNSKEY": "256 3 8 AQID", "DHCID": "AQID", "NSEC3": "1 1 1 ab 04 A", "NSEC3PARAM": "1 1 1 ab",
    "TLSA": "3 1 1 0102", "SMIMEA": "3 1 1 0102", "HIP": "2 0102 AQID r.example.", "NINFO": '"n"',
    "CDS": "1 8 200 0102", "CDNSKEY": "256 3 8 AQID", "OPENPGPKEY": "AQID", "CSYNC": "1 3 A NS", "ZONEMD": "1 1 1 " + "00" * 48,
    "SVCB": "1 s.example. port=53", "HTTPS": "1 h.example. alpn=h2", "DSYNC": "CDS 1 53 d.example.", "HHIT": "AQID",
    "BRID": "AQID", "SPF": '"s"', "NID": "1 0000:0000:0000:0001", "L32": "1 10.0.0.1", "L64": "1 0000:0000:0000:0001",
    "LP": "1 l.example.", "EUI48": "00-01-02-03-04-05", "EUI64": "00-01-02-03-04-05-06-07",
    "TKEY": "a.example. 1 2 3 0 AQID", "TSIG": "a.example. 1 2 3 AQID 4 NOERROR 0", "URI": '1 2 "u"', "CAA": '0 t "v"',
    "AVC": '"a"', "AMTRELAY": "1 0 3 r.example.", "RESINFO": '"r"', "WALLET": '"w" "x"', "DLV": "1 8 200 0102",
}
TWO_NAME = {"SOA", "RP", "PX", "TKEY", "TSIG", "RRSIG", "SIG", "SRV", "NAPTR", "DSYNC", "IPSECKEY", "AMTRELAY", "HIP", "SVCB", "HTTPS", "NSEC"}


def implemented():
    """[(rdclass, rdtype, name)] for every non-generic implementation present in this tree."""
    dns.rdata.load_all_types()
    out = []
    seen = set()
    for (c, t), cls in sorted(dns.rdata._rdata_classes.items(), key=lambda kv: (int(kv[0][1]), int(kv[0][0]))):
        if cls is dns.rdata.GenericRdata:
            continue
        c = int(c)
        t = int(t)
        cc = int(CH) if c == int(CH) else int(IN)
        if (cc, t) in seen:
            continue
        seen.add((cc, t))
        name = dns.rdatatype.to_text(t)
        out.append((cc, t, name if cc == int(IN) else "CH-" + name))
    return out


def specimen_text(name):
    if name.startswith("CH-"):
        return {"CH-A": "c.example. 1"}.get(name)
    return SPECIMENS.get(name)


def specimen(c, t, name):
    txt = specimen_text(name)
    if txt is None:
        return None
    return dns.rdata.from_text(c, t, txt, origin=EX, relativize=False)


def lmin(c, t, name):
    """Shortest all-zero buffer the decoder accepts (else the specimen's wire length)."""
    zero = None
    for n in range(0, 64):
        try:
            dns.rdata.from_wire(c, t, b"\x00" * n, 0, n)
            zero = n
            break
        except Exception:
            pass
    sp = None
    try:
        rd = specimen(c, t, name)
        if rd is not None:
            sp = len(rd.to_wire())
    except Exception:
        sp = None
    if zero is not None:
        return zero
    return sp if sp is not None else 4
