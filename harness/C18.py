"""C18  A network exchange returns only a genuine response; stream framing is exact."""

import socket

import vf.prelude  # noqa: F401
from vf.api import Harness, S, concrete, hit

import dns.exception
import dns.flags
import dns.message
import dns.name
import dns.query
import dns.rcode
import dns.rrset

from harness.common import Hang
from harness.oracles import Reject, walk_message

PROPERTY = "C18"

WHERE = "10.0.0.53"
PORT = 53


class Deadline:
    """E11: dns.query._wait_for replaced: the n-th wait raises Timeout (n chosen by the harness)."""
    waits = 0
    limit = 10**9


def _wait_for(fd, readable, writable, _, expiration):
    Deadline.waits += 1
    if Deadline.waits > Deadline.limit:
        raise dns.exception.Timeout
    if Deadline.waits > 64:
        raise dns.exception.Timeout  # a script that is exhausted would block for ever


dns.query._wait_for = _wait_for


class UdpSock:
    family = socket.AF_INET
    type = socket.SOCK_DGRAM

    def __init__(self, datagrams):
        self.datagrams = list(datagrams)  # (bytes, from_address)
        self.sent = []

    def sendto(self, data, dest):
        self.sent.append((data, dest))
        return len(data)

    def recvfrom(self, n):
        if not self.datagrams:
            raise BlockingIOError()
        return self.datagrams.pop(0)

    def getsockname(self):
        return ("0.0.0.0", 12345)


def genuine():
    with concrete():
        q = dns.message.make_query("www.example.", "A", id=0x4242)
        r = dns.message.make_response(q)
        r.answer.append(dns.rrset.from_text("www.example.", 300, "IN", "A", "10.0.0.1"))
        return q, r.to_wire()


class Addr(tuple):
    """E2b: a socket address whose rendering inside the UnexpectedSource message is a constant (the message text is
    not the subject; rendering a symbolic port would enumerate ports one path at a time).  Comparison, indexing and
    slicing are the real tuple's."""

    _vf_format_const = "<address>"

    def __format__(self, spec):
        return "<address>"

    def __repr__(self):
        return "<address>"

    __str__ = __repr__


# datagram classes
GENUINE, BAD_ID, BAD_FLAGS, BAD_QUESTION, GARBAGE, TRAILING, FORGED_ADDR, FORGED_PORT, TRUNCATED, NOTHING = range(10)


def ref_is_response(qwire, wire):
    """Independent 'is a response to q' on the octets: QR, id, opcode, question (or an error rcode with no question)."""
    try:
        w = walk_message(wire)
        q = walk_message(qwire)
    except Reject:
        return False
    if (w["flags"] // 32768) % 2 == 0 or w["id"] != q["id"]:
        return False
    if (w["flags"] // 2048) % 16 != (q["flags"] // 2048) % 16:
        return False
    if w["flags"] % 16 in (1, 2, 4, 5) and len(w["sections"][0]) == 0:
        return True
    def qs(m):  # noqa: E306
        return [([x.lower() for x in s[0]], s[1], s[2]) for s in m["sections"][0]]
    a, b = qs(q), qs(w)
    return all([x in b for x in a]) and all([x in a for x in b])


def make_datagram(kind, reply, v16, garbage, port):
    src = (WHERE, PORT)
    if kind == GENUINE:
        d = reply
    elif kind == BAD_ID:
        d = bytes([v16 // 256, v16 % 256]) + reply[2:]
    elif kind == BAD_FLAGS:
        d = reply[:2] + bytes([v16 // 256, v16 % 256]) + reply[4:]
    elif kind == BAD_QUESTION:
        # question name www.example. -> wwx.example.
        d = reply[:15] + b"x" + reply[16:]
    elif kind == GARBAGE:
        d = garbage
    elif kind == TRAILING:
        d = reply + b"\x00"
    elif kind == FORGED_ADDR:
        d, src = reply, ("10.0.0.54", PORT)
    elif kind == FORGED_PORT:
        d, src = reply, Addr((WHERE, port))
    else:  # TRUNCATED: genuine header with TC, answer cut off
        d = reply[:2] + bytes([reply[2] | 0x02]) + reply[3:6] + b"\x00\x00" + reply[8:29]
    return d, src


def h18a(k1: int, k2: int, v1: int, v2: int, g1: bytes, g2: bytes, port: int, ign_unexpected: bool, ign_errors: bool, rot: bool, ign_trailing: bool) -> bool:
    """udp(): whatever is returned is octet-for-octet a response to the query from the queried address and port; anything else is skipped or raises exactly as configured."""
    q, reply = genuine()
    kinds = [k1, k2, S("last")]
    vals = [v1, v2, 0]
    garb = [g1, g2, b""]
    script = []
    for k, v, g in zip(kinds, vals, garb):
        if k != NOTHING:
            script.append(make_datagram(k, reply, v, g, port))
    sock = UdpSock(script)
    Deadline.waits, Deadline.limit = 0, 10**9
    try:
        r = dns.query.udp(q, WHERE, timeout=5, port=PORT, sock=sock, ignore_unexpected=ign_unexpected, ignore_errors=ign_errors,
                          raise_on_truncation=rot, ignore_trailing=ign_trailing)
        got = ("ok", r.wire if hasattr(r, "wire") else None)
    except dns.query.UnexpectedSource:
        got = ("UnexpectedSource",)
    except dns.query.BadResponse:
        got = ("BadResponse",)
    except dns.message.Truncated:
        got = ("Truncated",)
    except dns.exception.Timeout:
        got = ("Timeout",)
    except dns.exception.FormError:
        got = ("FormError",)
    hit("exchanged")
    # ---- reference behaviour table
    qwire = q.to_wire()
    want = ("Timeout",)
    alt = None
    for d, src in script:
        if src != (WHERE, PORT):
            if ign_unexpected:
                continue
            want = ("UnexpectedSource",)
            break
        try:
            w = walk_message(d)
            parses = True
        except Reject as e:
            parses = False
            w = None
            trailing_only = False
            if len(d) > 0:
                try:
                    walk_message(d[:-1])
                    trailing_only = True
                except Reject:
                    trailing_only = False
            if trailing_only and ign_trailing:
                parses = True
                w = walk_message(d[:-1])
        if not parses:
            tc_header = len(d) >= 12 and (d[2] // 2) % 2 == 1
            if tc_header and rot:
                # malformed but the TC bit is set: reported as truncation (if it looks like our response)
                if ign_errors and not header_is_response(qwire, d):
                    continue
                want = ("Truncated",)
                break
            if ign_errors:
                continue
            want = ("FormError",)
            break
        tc = (w["flags"] // 512) % 2 == 1
        isresp = ref_is_response(qwire, d if not (ign_trailing and d != reply and d[:-1] == reply) else d[:-1])
        if tc and rot:
            if ign_errors and not isresp:
                continue
            want = ("Truncated",)
            break
        if ign_errors and not isresp:
            continue
        if not isresp:
            want = ("BadResponse",)
            # an UPDATE-opcode datagram is parsed with the update section rules, which reject the
            # (IN-class, TTL 300) record in the prerequisite section: either rejection is "not returned"
            if (d[2] // 8) % 16 == 5:
                alt = ("FormError",)
            break
        want = ("ok", d)
        break
    if want[0] == "ok":
        # the property itself: only a genuine response from the queried address and port is ever returned
        if not ref_is_response(qwire, want[1][:len(reply)] if want[1][:len(reply)] == reply else want[1]):
            return False
    return got == want or (alt is not None and got == alt)


def header_is_response(qwire, d):
    """is_response restricted to what a truncated parse provides (header + whatever question was read)."""
    if len(d) < 12:
        return False
    if d[2] // 128 == 0 or d[0:2] != qwire[0:2]:
        return False
    if (d[2] // 8) % 16 != (qwire[2] // 8) % 16:
        return False
    return True


def h18a_pre(k1, k2, v1, v2, g1, g2, port, ign_unexpected, ign_errors, rot, ign_trailing):
    if not (k1 == S("k1") and 0 <= k2 <= 9 and 0 <= v1 <= 65535 and 0 <= v2 <= 65535 and 0 <= port <= 65535):
        return False
    if k1 not in (BAD_ID, BAD_FLAGS) and v1 != 0:
        return False
    if k2 not in (BAD_ID, BAD_FLAGS) and v2 != 0:
        return False
    if (k1 == GARBAGE) != (len(g1) > 0) and k1 != GARBAGE:
        return False
    if k1 != GARBAGE and len(g1) != 0:
        return False
    if k2 != GARBAGE and len(g2) != 0:
        return False
    if len(g1) > 3 or len(g2) > 3:
        return False
    if k1 != FORGED_PORT and k2 != FORGED_PORT and port != 0:
        return False
    if S("k2") is not None and k2 != S("k2"):
        return False
    return True


def h18a_shards(tier):
    out = []
    for k1 in range(10):
        for last in (GENUINE, NOTHING):
            if tier == "quick":
                out.append({"k1": k1, "k2": None if k1 not in (BAD_FLAGS,) else NOTHING, "last": last, "_timeout": 1200, "_path_timeout": 120})
            else:
                for k2 in range(10):
                    out.append({"k1": k1, "k2": k2, "last": last, "_timeout": 2400, "_path_timeout": 120})
    return out


# ---------------------------------------------------------------- H18b stream framing

class TcpSock:
    family = socket.AF_INET
    type = socket.SOCK_STREAM

    def __init__(self, stream, chunks):
        self.stream = stream
        self.pos = 0
        self.chunks = list(chunks)  # per recv: 0 = would block, n > 0 = deliver at most n octets
        self.out = b""
        self.send_script = []

    def recv(self, n):
        c = self.chunks.pop(0) if self.chunks else n
        if c == 0:
            raise BlockingIOError()
        k = min(n, c, len(self.stream) - self.pos)
        data = self.stream[self.pos:self.pos + k]
        self.pos += k
        return data  # b"" = EOF

    def send(self, data):
        self.calls = getattr(self, "calls", 0) + 1
        if self.calls > 200:
            raise Hang("send() called more than 200 times: the write loop makes no progress")
        c = self.send_script.pop(0) if self.send_script else len(data)
        if c == 0:
            raise BlockingIOError()
        k = min(len(data), c)
        self.out += data[:k]
        return k


def h18b(c1: int, c2: int, c3: int, c4: int, eof: int, dl: int) -> bool:
    """receive_tcp under any fragmentation / would-block pattern returns exactly the message; early EOF -> EOFError; expired deadline -> Timeout; never a short message."""
    q, reply = genuine()
    stream = len(reply).to_bytes(2, "big") + reply
    total = len(stream)
    sock = TcpSock(stream[:eof], [c1, c2, c3, c4])
    Deadline.waits, Deadline.limit = 0, dl
    blocks = len([c for c in (c1, c2, c3, c4) if c == 0])
    try:
        r, t = dns.query.receive_tcp(sock, expiration=1)
        got = "ok"
    except EOFError:
        got = "eof"
    except dns.exception.Timeout:
        got = "timeout"
    finally:
        Deadline.limit = 10**9
    hit("read")
    if got == "ok":
        return r.wire == reply and eof == total
    # reference: replay the chunk script on the truncated stream
    pos, need, waits, phase, want = 0, 2, 0, 0, None
    chunks = [c1, c2, c3, c4]
    while want is None:
        c = chunks.pop(0) if chunks else need
        if c == 0:
            waits += 1
            if waits > dl:
                want = "timeout"
            continue
        k = min(need, c, eof - pos)
        if k == 0:
            want = "eof"
            break
        pos += k
        need -= k
        if need == 0:
            if phase == 0:
                phase, need = 1, len(reply)
            else:
                want = "ok"
    return got == want


def h18b_pre(c1, c2, c3, c4, eof, dl):
    with concrete():
        total = len(genuine()[1]) + 2
    lo, hi = S("eof")
    return all([0 <= c <= 3 for c in (c1, c2, c3, c4)]) and lo <= eof <= hi and eof <= total and 0 <= dl <= 4 and c1 == S("c1")


def h18b_shards(tier):
    with concrete():
        total = len(genuine()[1]) + 2
    out = []
    for c1 in range(4):
        for rng in ((0, 3), (4, total - 1), (total, total)):
            out.append({"c1": c1, "eof": rng, "_timeout": 1500, "_path_timeout": 120})
    return out


def h18b2(s1: int, s2: int, s3: int) -> bool:
    """send_tcp under partial sends / would-block writes exactly the two-octet length prefix plus the message."""
    q, reply = genuine()
    sock = TcpSock(b"", [])
    sock.send_script = [s1, s2, s3]
    Deadline.waits, Deadline.limit = 0, 10**9
    n, t = dns.query.send_tcp(sock, reply, expiration=1)
    hit("sent")
    return sock.out == len(reply).to_bytes(2, "big") + reply and n == len(reply) + 2


def h18b2_pre(s1, s2, s3):
    lo, hi = S("s1")
    return all([0 <= s <= 47 for s in (s1, s2, s3)]) and lo <= s1 <= hi


# ---------------------------------------------------------------- H18c source matching

V4 = ["10.0.0.53", "10.0.0.54", "224.0.0.251", "10.0.0.053"]
V6 = ["2001:db8::1", "2001:DB8:0::1", "2001:db8::2", "ff02::fb"]


def h18c(di: int, fi: int, dport: int, fport: int, flow: int, scope: int, ignore: bool) -> bool:
    """_matches_destination: unicast needs the same binary address and port (and flow / scope for IPv6); multicast needs the same port (and flow / scope); otherwise skip or UnexpectedSource."""
    v6 = S("v6")
    pool = V6 if v6 else V4
    af = socket.AF_INET6 if v6 else socket.AF_INET
    dest = Addr((pool[di], dport, 0, 0) if v6 else (pool[di], dport))
    frm = Addr((pool[fi], fport, flow, scope) if v6 else (pool[fi], fport))
    try:
        got = dns.query._matches_destination(af, frm, dest, ignore)
    except dns.query.UnexpectedSource:
        got = "raise"
    hit("matched")
    canon = {"10.0.0.53": 1, "10.0.0.54": 2, "224.0.0.251": 3, "10.0.0.053": None,
             "2001:db8::1": 11, "2001:DB8:0::1": 11, "2001:db8::2": 12, "ff02::fb": 13}
    da, fa = canon[pool[di]], canon[pool[fi]]
    same_rest = (fport == dport and flow == 0 and scope == 0) if v6 else (fport == dport)
    multicast = pool[di] in ("224.0.0.251", "ff02::fb")
    if da is None or fa is None:
        ok = multicast and same_rest and da is not None
    else:
        ok = same_rest and (da == fa or multicast)
    if ok:
        return got is True
    return got is False if ignore else got == "raise"


def h18c_pre(di, fi, dport, fport, flow, scope, ignore):
    if not S("v6") and di == 3:
        return False  # (the destination is validated by the caller before any datagram is read)
    return di == S("di") and 0 <= fi <= 3 and 0 <= dport <= 65535 and 0 <= fport <= 65535 and 0 <= flow <= 1 and 0 <= scope <= 1 and (S("v6") or (flow == 0 and scope == 0))


HARNESSES = [
    Harness("H18a", h18a, h18a_pre, h18a_shards, kind="finite selection of datagram classes with universal id / flags / port / garbage",
            encodes=["dns.query.udp", "dns.query.receive_udp", "dns.query._udp_recv", "dns.query._matches_destination", "dns.query._addresses_equal",
                     "dns.message.Message.is_response", "dns.message.from_wire"],
            bound="<= 2 datagrams before the genuine reply (or before nothing): genuine, id replaced by symbolic 16 bits, flags replaced by symbolic 16 bits, changed question, garbage of <= 3 symbolic octets, trailing octet, forged source address, forged source port (symbolic), genuine truncated reply; ignore_unexpected / ignore_errors / raise_on_truncation / ignore_trailing symbolic; quick: first datagram class per shard, second symbolic",
            stubs=["E11", "E5", "E12", "E6", "E2b"], outside="> 3 datagrams; real sockets; the async twins"),
    Harness("H18b", h18b, h18b_pre, h18b_shards, kind="finite selection of chunk sizes, EOF position and deadline",
            encodes=["dns.query.receive_tcp", "dns.query._net_read"],
            bound="the first 4 recv calls deliver 1-3 octets or would-block (symbolic), later calls deliver all; EOF at any position of the stream; deadline expiring at wait 0..4",
            stubs=["E11"], outside="> 4 scripted events; TLS want-read / want-write"),
    Harness("H18b2", h18b2, h18b2_pre, lambda tier: [{"s1": r, "_timeout": 900, "_path_timeout": 120} for r in ((0, 5), (6, 11), (12, 19), (20, 29), (30, 47))], kind="universal over partial-send sizes",
            encodes=["dns.query.send_tcp", "dns.query._net_write"], bound="first 3 send calls accept a symbolic 0..47 octets (0 = would block)", stubs=["E11"], outside=""),
    Harness("H18c", h18c, h18c_pre, lambda tier: [{"v6": v, "di": di, "_timeout": 900, "_path_timeout": 120} for v in (False, True) for di in range(4) if v or di != 3], kind="universal over ports, finite over addresses",
            encodes=["dns.query._matches_destination", "dns.query._addresses_equal", "dns.inet.is_multicast"],
            bound="4 IPv4 / 4 IPv6 addresses (incl. two spellings of one address, an invalid spelling, a multicast group) as destination and source; ports symbolic 16 bit; IPv6 flow / scope 0..1",
            stubs=["E2b"], outside="other addresses; the text of the UnexpectedSource message"),
]
