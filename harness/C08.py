"""C08  Rendered messages respect the size limit; truncation and padding are exact."""

import vf.prelude  # noqa: F401
from vf.api import Harness, S, concrete, hit

import dns.edns
import dns.exception
import dns.flags
import dns.message
import dns.name
import dns.rdataclass
import dns.rdatatype
import dns.renderer
import dns.rrset
import dns.tsig

from harness.oracles import Reject, rdata_names, walk_message

PROPERTY = "C08"


class Clock:
    @staticmethod
    def time():
        return 1_700_000_000


dns.message.time = Clock

KEY_HOST = dns.tsig.Key("host.example.", b"0123456789abcdef", dns.tsig.HMAC_SHA256)
KEY_PLAIN = dns.tsig.Key("tsigkey.", b"0123456789abcdef", dns.tsig.HMAC_SHA256)
KEYS = {"host": KEY_HOST, "plain": KEY_PLAIN}


def build_message(cfg, txtlen=None):
    """A response of ~1 KiB whose rrset boundaries fall inside names, inside rdata and at rrset ends."""
    q = dns.message.make_query("www.example.", "A", id=0x1234)
    if cfg["edns"]:
        opts = [dns.edns.GenericOption(dns.edns.OptionType.NSID, b"0123456789")] if cfg["option"] else []
        q.use_edns(0, 0, 4096, options=opts, pad=cfg["pad"])
    m = dns.message.make_response(q)
    if cfg["edns"]:
        m.use_edns(0, 0, 4096, options=q.options if cfg["option"] else [], pad=cfg["pad"])
    filler = "x" * 120
    mid = filler if txtlen is None else None
    m.answer.append(dns.rrset.from_text("www.example.", 300, "IN", "A", "10.0.0.1", "10.0.0.2"))
    m.answer.append(dns.rrset.from_text("host.example.", 300, "IN", "TXT", '"%s"' % filler, '"%s"' % filler))
    if txtlen is None:
        m.answer.append(dns.rrset.from_text("other.example.", 300, "IN", "TXT", '"%s"' % mid))
    else:
        rd = dns.rdata.from_wire(dns.rdataclass.IN, dns.rdatatype.TXT, bytes([txtlen]) + b"y" * txtlen, 0, txtlen + 1)
        m.answer.append(dns.rrset.from_rdata("other.example.", 300, rd))
    m.answer.append(dns.rrset.from_text("host.example.", 300, "IN", "MX", "10 mail.host.example."))
    m.authority.append(dns.rrset.from_text("example.", 300, "IN", "NS", "ns1.example.", "ns2.sub.example."))
    m.authority.append(dns.rrset.from_text("sub.example.", 300, "IN", "TXT", '"%s"' % filler))
    m.additional.append(dns.rrset.from_text("ns1.example.", 300, "IN", "A", "10.0.0.3"))
    m.additional.append(dns.rrset.from_text("ns2.sub.example.", 300, "IN", "TXT", '"%s"' % filler))
    m.additional.append(dns.rrset.from_text("mail.host.example.", 300, "IN", "A", "10.0.0.4"))
    if cfg["tsig"]:
        m.use_tsig(KEYS[cfg["tsig"]])
    return m


def names_equal(a, b):
    return len(a) == len(b) and all([x.lower() == y.lower() for x, y in zip(a, b)])


def check_wire(m, wire, cfg, limit):
    """The C08 obligations on one rendering (independent walker + the library's own parser)."""
    if len(wire) > limit:
        return False
    try:
        w = walk_message(wire)
    except Reject:
        return False  # bad pointer (e.g. into removed bytes), wrong counts, truncation, trailing junk
    orig = [m.question, m.answer, m.authority, m.additional]
    dropped_before_additional = False
    for s in (1, 2, 3):
        rrs = [r for r in w["sections"][s] if r[1] not in (41, 250)]
        # whole rrsets, in order, as a prefix
        i = 0
        for rrset in orig[s]:
            n = len(rrset)
            chunk = rrs[i:i + n]
            if len(chunk) == 0:
                break
            if len(chunk) != n:
                return False  # partial record set
            for r in chunk:
                if not names_equal(r[0], list(rrset.name.labels)) or r[1] != int(rrset.rdtype):
                    return False
                for nm in rdata_names(wire, r[1], r[4], r[5]):
                    if len(nm) == 0:
                        return False
            i += n
        if i != len(rrs):
            return False
        kept = 0
        j = 0
        for rrset in orig[s]:
            if j + len(rrset) <= len(rrs):
                kept += 1
                j += len(rrset)
            else:
                break
        if kept < len(orig[s]):
            # everything after the first dropped rrset is dropped too (prefix in section order)
            for t in range(s + 1, 4):
                if len([r for r in w["sections"][t] if r[1] not in (41, 250)]) > 0:
                    return False
            if s < 3:
                dropped_before_additional = True
    tc = (w["flags"] & 0x0200) != 0
    if tc != dropped_before_additional:
        return False
    add = w["sections"][3]
    has_opt = any([r[1] == 41 for r in add])
    has_tsig = any([r[1] == 250 for r in add])
    if has_opt != bool(cfg["edns"]) or has_tsig != bool(cfg["tsig"]):
        return False
    if has_tsig and add[-1][1] != 250:
        return False
    if cfg["pad"] and cfg["edns"] and len(wire) % cfg["pad"] != 0:
        return False
    # the library's own parser accepts it (TSIG verified with the key)
    kr = KEYS[cfg["tsig"]] if cfg["tsig"] else None
    p = dns.message.from_wire(wire, keyring=kr)
    if cfg["tsig"] and not p.had_tsig:
        return False
    return len(p.answer) <= len(m.answer)


# ---------------------------------------------------------------- H08a every size limit

CONFIGS = [
    {"edns": False, "option": False, "pad": 0, "tsig": None},
    {"edns": True, "option": False, "pad": 0, "tsig": None},
    {"edns": True, "option": True, "pad": 0, "tsig": None},
    {"edns": True, "option": False, "pad": 128, "tsig": None},
    {"edns": True, "option": True, "pad": 468, "tsig": None},
    {"edns": False, "option": False, "pad": 0, "tsig": "plain"},
    {"edns": False, "option": False, "pad": 0, "tsig": "host"},
    {"edns": True, "option": True, "pad": 0, "tsig": "host"},
    {"edns": True, "option": False, "pad": 128, "tsig": "plain"},
    {"edns": True, "option": False, "pad": 16, "tsig": "plain"},
    {"edns": True, "option": False, "pad": 128, "tsig": "host"},
    {"edns": True, "option": False, "pad": 16, "tsig": "host"},
]


def h08a(max_size: int, prefer: bool) -> bool:
    """For every size limit: result within the limit or TooBig; truncation keeps whole record sets as a prefix, TC exact, OPT/TSIG kept, padding exact."""
    cfg = CONFIGS[S("cfg")]
    with concrete():
        m = build_message(cfg)
        # size of the fixed part (header, question, OPT, TSIG; no records), rendered without a limit
        m0 = build_message(cfg)
        m0.answer, m0.authority, m0.additional = [], [], []
        fixed = len(m0.to_wire())
    # documented effective limit: 0 = the request's payload (else 65535); clamped to 512..65535
    limit = max_size
    if limit == 0:
        limit = m.request_payload if m.request_payload != 0 else 65535
    limit = 512 if limit < 512 else (65535 if limit > 65535 else limit)
    try:
        wire = m.to_wire(max_size=max_size, prefer_truncation=prefer)
    except dns.exception.TooBig:
        hit("toobig")
        if not prefer or cfg["pad"]:
            return True  # with padding the unchanged library raises TooBig when the padded form does not fit: left unconstrained
        # with prefer_truncation every record set may be dropped, so TooBig is legitimate only when the fixed part
        # itself does not fit (64 octets of slack: reservations are made for the uncompressed OPT/TSIG)
        return limit < fixed + 64
    hit("rendered")
    return check_wire(m, wire, cfg, limit)


def h08a_pre(max_size, prefer):
    lo, hi = S("range")
    return lo <= max_size <= hi


def h08a_shards(tier):
    out = []
    for i in range(len(CONFIGS)):
        for rng in ((0, 700), (701, 900), (901, 1100), (1101, 65535)):
            out.append({"cfg": i, "range": rng, "_timeout": 600, "_path_timeout": 60})
    return out


# ---------------------------------------------------------------- H08b symbolic record size

def h08b(n: int, max_size: int, prefer: bool) -> bool:
    """A TXT string of symbolic length in the middle of the message moves every later boundary: same obligations."""
    cfg = CONFIGS[S("cfg")]
    with concrete():
        pass
    m = build_message(cfg, txtlen=n)
    try:
        wire = m.to_wire(max_size=max_size, prefer_truncation=prefer)
    except dns.exception.TooBig:
        return True
    hit("rendered")
    return check_wire(m, wire, cfg, max_size)


def h08b_pre(n, max_size, prefer):
    lo, hi = S("nrange")
    return lo <= n <= hi and 512 <= max_size <= 1400


def h08b_shards(tier):
    out = []
    step = 32 if tier == "quick" else 8
    for cfg in ((1, 6) if tier == "quick" else (0, 1, 4, 6, 7, 8)):
        for lo in range(0, 256, step):
            out.append({"cfg": cfg, "nrange": (lo, min(255, lo + (3 if tier == "quick" else step - 1))), "_timeout": 600, "_path_timeout": 60})
    return out


# ---------------------------------------------------------------- H08d padding at every residue

def h08d(n: int) -> bool:
    """Padding requested (block 16), with / without a TSIG whose key name is compressible: for every size of the unpadded message - in particular when it already is a multiple of the block - the final length is a multiple of the block."""
    cfg = CONFIGS[S("cfg")]
    m = build_message(cfg, txtlen=n)
    wire = m.to_wire(max_size=65535)
    hit("rendered")
    return check_wire(m, wire, cfg, 65535)


def h08d_pre(n):
    lo, hi = S("nrange")
    return lo <= n <= hi


def h08d_shards(tier):
    # 16 consecutive lengths cover every residue of the unpadded size modulo the block
    return [{"cfg": cfg, "nrange": (lo, lo + 3), "_timeout": 600, "_path_timeout": 60}
            for cfg in (9, 11) for lo in range(0, 64 if tier == "quick" else 256, 4)]


# ---------------------------------------------------------------- H08c rollback step on the Renderer itself

def h08c(max_size: int, l0: int, l1: int) -> bool:
    """After a forced TooBig the buffer and the compression table are back at the start of the record set; a later record with the same owner still decodes."""
    r = dns.renderer.Renderer(id=1, flags=0, max_size=max_size)
    qname = dns.name.Name([b"www", b"example", b""])
    owner = dns.name.Name([bytes([l0]), bytes([l1]), b"example", b""])
    r.add_question(qname, dns.rdatatype.A)
    big = dns.rrset.from_text(owner.to_text(), 300, "IN", "TXT", '"%s"' % ("z" * 200), '"%s"' % ("y" * 200))
    small = dns.rrset.from_text(owner.to_text(), 300, "IN", "MX", "10 mail." + owner.to_text())
    before = len(r.output.getvalue())
    try:
        r.add_rrset(dns.renderer.ANSWER, big)
        fit = True
    except dns.exception.TooBig:
        fit = False
        if len(r.output.getvalue()) != before:
            return False
        for name, pos in r.compress.items():
            if pos >= before:
                return False
    try:
        r.add_rrset(dns.renderer.ANSWER, small)
    except dns.exception.TooBig:
        return True
    r.write_header()
    wire = r.get_wire()
    hit("rendered")
    if len(wire) > max_size:
        return False
    try:
        w = walk_message(wire)
    except Reject:
        return False
    want = (2 if fit else 0) + 1
    if len(w["sections"][1]) != want:
        return False
    last = w["sections"][1][-1]
    if not names_equal(last[0], list(owner.labels)):
        return False
    nm = rdata_names(wire, 15, last[4], last[5])[0]
    return names_equal(nm, [b"mail"] + list(owner.labels))


def h08c_pre(max_size, l0, l1):
    return 30 <= max_size <= 600 and 97 <= l0 <= 122 and 97 <= l1 <= 122


HARNESSES = [
    Harness("H08a", h08a, h08a_pre, h08a_shards, kind="universal over the size limit",
            encodes=["dns.message.Message.to_wire", "dns.message.Message._compute_opt_reserve", "dns.message.Message._compute_tsig_reserve",
                     "dns.renderer.Renderer._track_size", "dns.renderer.Renderer._rollback", "dns.renderer.Renderer.reserve",
                     "dns.renderer.Renderer.release_reserved", "dns.renderer.Renderer.add_rrset", "dns.renderer.Renderer.add_opt",
                     "dns.renderer.Renderer.write_header", "dns.rdataset.Rdataset.to_wire"],
            bound="11 message configurations (no EDNS / EDNS / NSID option / padding 16,128,468 / TSIG with a key named like a record owner or not) of a 9-rrset response; max_size symbolic over 0..65535 (4 range shards), prefer_truncation symbolic",
            stubs=["E1", "E7"], outside="other messages; GSS-TSIG"),
    Harness("H08b", h08b, h08b_pre, h08b_shards, kind="universal over limit and record size",
            encodes=["dns.renderer.Renderer._track_size", "dns.renderer.Renderer._rollback", "dns.message.Message.to_wire"],
            bound="TXT string length n symbolic (quick: 8 windows of 4 values across 0..255; thorough: all 0..255), max_size symbolic 512..1400, 2 (6) configurations",
            stubs=["E1", "E7"], outside="several variable-size records"),
    Harness("H08d", h08d, h08d_pre, h08d_shards, kind="universal over the size of one record (every residue modulo the padding block)",
            encodes=["dns.renderer.Renderer.add_opt", "dns.renderer.Renderer._write_tsig", "dns.message.Message.to_wire", "dns.message.Message._compute_opt_reserve",
                     "dns.message.Message._compute_tsig_reserve"],
            bound="block 16, TSIG key name not compressible / compressible against an owner in the message; TXT length symbolic over 64 (thorough 256) consecutive values, 4 per shard, no size limit",
            stubs=["E1", "E7"], outside="other block sizes (H08a: 128, 468); truncation together with padding (H08a)"),
    Harness("H08c", h08c, h08c_pre, lambda tier: [{"_timeout": 900, "_path_timeout": 60}], kind="universal",
            encodes=["dns.renderer.Renderer._rollback", "dns.renderer.Renderer._track_size", "dns.name.Name.to_wire"],
            bound="Renderer driven directly: question, a 400-octet rrset that may overflow, then a small rrset of the same owner; max_size symbolic 30..600, two symbolic owner labels (a-z)",
            stubs=["E1", "E6"], outside="longer sequences"),
]
