#!/bin/sh
# Build the overlay venv used by every check: /venv's interpreter + packages, plus
# crosshair-tool / z3-solver from the offline wheelhouse.  Idempotent.
set -e
HERE="$(cd "$(dirname "$0")" && pwd)"
VENV="$HERE/.venv"
if [ -x "$VENV/bin/python" ] && "$VENV/bin/python" -c "import crosshair, z3, dns" >/dev/null 2>&1; then
    exit 0
fi
rm -rf "$VENV"
/venv/bin/python -m venv "$VENV"
SP="$("$VENV/bin/python" -c 'import sysconfig; print(sysconfig.get_paths()["purelib"])')"
echo "import site; site.addsitedir('/venv/lib/python3.12/site-packages')" > "$SP/_base.pth"
PIP_NO_INDEX=1 "$VENV/bin/pip" install -q --no-index --find-links /opt/veriftools/wheels crosshair-tool z3-solver >/dev/null
"$VENV/bin/python" -c "import crosshair, z3; print('verif venv ready: z3', z3.get_version_string())"
