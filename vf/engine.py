"""Bounded symbolic exploration of one harness shard with CrossHair + z3.

This is crosshair.core.explore_paths with book-keeping: every feasible path of
the harness body (which calls the real dnspython code of /repo) is executed
with symbolic arguments; on each path the harness's verdict (`return True`,
`return False`, or an escaping exception) is decided by z3.  The result is one
of

  CONFIRMED  the path tree was exhausted and every path returned True
  REFUTED    z3 produced a model on which the harness returns False / raises;
             the realized arguments are returned for concrete replay
  UNKNOWN    a deadline, an `unknown` from z3 or an unsupported construct left
             part of the path tree unexplored -- never counted as success
  UNREACHED  no path satisfied the pre-condition and reached the verdict
"""

import inspect
import sys
import time
import traceback
from time import process_time
from typing import Any, Callable, Dict, List, Optional

import z3

import crosshair.core_and_libs  # noqa: F401  (registers the standard library models)
from crosshair.condition_parser import condition_parser
from crosshair.core import (
    ExceptionFilter,
    Patched,
    deep_realize,
    gen_args,
)
from crosshair.copyext import CopyMode, deepcopyext
from crosshair.options import DEFAULT_OPTIONS
from crosshair.statespace import (
    CallAnalysis,
    RootNode,
    StateSpace,
    StateSpaceContext,
    VerificationStatus,
)
from crosshair.tracers import COMPOSITE_TRACER, NoTracing, ResumedTracing
from crosshair.util import (
    CrossHairInternal,
    CrosshairUnsupported,
    IgnoreAttempt,
    NotDeterministic,
    UnexploredPath,
)

# --- solver accounting ------------------------------------------------------------

SOLVER = {"queries": 0, "seconds": 0.0, "unknown": 0}
_orig_check = z3.Solver.check


def _counted_check(self, *a, **k):
    t = time.perf_counter()
    r = _orig_check(self, *a, **k)
    SOLVER["queries"] += 1
    SOLVER["seconds"] += time.perf_counter() - t
    if r == z3.unknown:
        SOLVER["unknown"] += 1
    return r


z3.Solver.check = _counted_check

REALIZATIONS: Dict[str, int] = {}
_orig_fmv = StateSpace.find_model_value


def _site() -> str:
    f = sys._getframe(2)
    best = None
    depth = 0
    while f is not None and depth < 60:
        fn = f.f_code.co_filename
        if "/dns/" in fn or "/harness/" in fn:
            best = "%s:%d" % (fn.split("/repo/")[-1].split("/verif/")[-1], f.f_lineno)
            break
        f = f.f_back
        depth += 1
    return best or "?"


def _counted_fmv(self, expr, *a, **k):
    if not getattr(self, "is_detached", False):
        s = _site()
        REALIZATIONS[s] = REALIZATIONS.get(s, 0) + 1
    return _orig_fmv(self, expr, *a, **k)


StateSpace.find_model_value = _counted_fmv


# CrossHair sometimes tries a concrete value for an argument first ("premature
# realize", a ParallelNode: either branch suffices).  The symbolic branch is the
# one that covers everything, so always take it: fewer wasted paths.
_orig_fork_parallel = StateSpace.fork_parallel


def _fork_parallel(self, false_probability, desc=""):
    if desc.startswith("premature realize"):
        return False
    return _orig_fork_parallel(self, false_probability, desc)


StateSpace.fork_parallel = _fork_parallel


class Result(dict):
    pass


def _plain(v: Any) -> Any:
    """Make a realized argument JSON-friendly (repr string that eval()s back)."""
    with NoTracing():
        return str(repr(v))


def explore(
    fn: Callable,
    pre: Optional[Callable] = None,
    *,
    timeout: float = 60.0,
    per_path_timeout: float = 30.0,
    max_samples: int = 3,
    want_refutation: bool = True,
) -> Result:
    """Explore `fn` symbolically.  `fn` must return True on every path (it
    catches the exceptions the property allows itself); anything else is a
    counterexample.  `pre(**args)` (optional) restricts the inputs."""
    sig = inspect.signature(fn)
    search_root = RootNode()
    stats = {
        "paths": 0,
        "ok_paths": 0,
        "pre_rejected": 0,
        "unknown_paths": 0,
        "unknown_reasons": {},
        "nondeterministic": 0,
    }
    samples: List[Dict[str, str]] = []
    cex: Dict[str, Any] = {}
    q0, s0 = SOLVER["queries"], SOLVER["seconds"]
    REALIZATIONS.clear()
    t_wall = time.time()
    condition_start = process_time()
    exhausted = False
    timed_out = False
    top: Optional[CallAnalysis] = None
    pre_ok_flag = [False]

    def body(args: inspect.BoundArguments):
        pre_ok_flag[0] = False
        if pre is not None:
            if not pre(*args.args, **args.kwargs):
                raise IgnoreAttempt("precondition")
        pre_ok_flag[0] = True
        return fn(*args.args, **args.kwargs)

    i = 0
    while True:
        i += 1
        itr_start = process_time()
        if itr_start > condition_start + timeout:
            timed_out = True
            break
        space = StateSpace(
            execution_deadline=itr_start + per_path_timeout,
            model_check_timeout=per_path_timeout / 2,
            search_root=search_root,
        )
        breakout = False
        status: Optional[VerificationStatus]
        with condition_parser(DEFAULT_OPTIONS.analysis_kind), Patched(), COMPOSITE_TRACER, NoTracing(), StateSpaceContext(space):
            try:
                pre_args = gen_args(sig)
                args = deepcopyext(pre_args, CopyMode.REGULAR, {})
                ret: object = None
                user_exc = None
                with ExceptionFilter() as efilter, ResumedTracing():
                    ret = body(args)
                if efilter.ignore:
                    raise IgnoreAttempt("ignored")
                if efilter.user_exc:
                    if isinstance(efilter.user_exc[0], NotDeterministic):
                        raise NotDeterministic
                    user_exc = efilter.user_exc
                stats["paths"] += 1
                with ResumedTracing():
                    good = user_exc is None and (ret is True or bool(ret))
                    if good:
                        stats["ok_paths"] += 1
                        if len(samples) < max_samples:
                            with ExceptionFilter() as ef2:
                                space.detach_path()
                                samples.append({k: _plain(deep_realize(v)) for k, v in pre_args.arguments.items()})
                    else:
                        with ExceptionFilter() as ef2:
                            space.detach_path()
                            cex["args"] = {k: _plain(deep_realize(v)) for k, v in pre_args.arguments.items()}
                            if user_exc is not None:
                                e, tb = user_exc
                                with NoTracing():
                                    cex["exception"] = str("%s: %s" % (type(e).__name__, str(deep_realize(e.args))[:300]))
                                    cex["traceback"] = str("".join(tb.format()[-6:]))
                            else:
                                cex["returned"] = _plain(deep_realize(ret))[:200]
                        if "args" in cex:
                            breakout = want_refutation
                        else:
                            # could not realize: treat the path as unknown
                            raise UnexploredPath()
                status = VerificationStatus.CONFIRMED if good else VerificationStatus.REFUTED
            except IgnoreAttempt:
                status = None
                if not pre_ok_flag[0]:
                    stats["pre_rejected"] += 1
            except NotDeterministic:
                status = VerificationStatus.UNKNOWN
                stats["nondeterministic"] += 1
                stats["unknown_paths"] += 1
                r = stats["unknown_reasons"]
                r["NotDeterministic"] = r.get("NotDeterministic", 0) + 1
            except UnexploredPath as e:
                status = VerificationStatus.UNKNOWN
                stats["unknown_paths"] += 1
                r = stats["unknown_reasons"]
                k = type(e).__name__
                if isinstance(e, CrosshairUnsupported):
                    k += ":" + str(e)[:60]
                r[k] = r.get(k, 0) + 1
                # where (innermost frame of the library or a harness): diagnosis aid, reported in the evidence
                try:
                    tb, best = e.__traceback__, None
                    while tb is not None:
                        fn_ = tb.tb_frame.f_code.co_filename
                        if "/dns/" in fn_ or "/harness/" in fn_:
                            best = "%s:%d" % (fn_.split("/verif/")[-1].split("/dns/")[-1] if "/harness/" in fn_ else "dns/" + fn_.split("/dns/")[-1], tb.tb_lineno)
                        tb = tb.tb_next
                    if best:
                        w = stats.setdefault("unknown_where", {})
                        w[best] = w.get(best, 0) + 1
                except Exception:
                    pass
            top, exhausted = space.bubble_status(CallAnalysis(status))
        if breakout or exhausted:
            break
        if stats["nondeterministic"] > 3:
            break

    tree_status = None
    if search_root.child is not None:
        try:
            tree_status = search_root.child.get_result().verification_status
        except Exception:
            tree_status = None
    if cex.get("args") is not None and want_refutation:
        outcome = "REFUTED"
    elif exhausted and tree_status == VerificationStatus.CONFIRMED and stats["ok_paths"] > 0 and not cex:
        outcome = "CONFIRMED"
    elif exhausted and tree_status is None and stats["ok_paths"] == 0 and not cex:
        outcome = "UNREACHED"
    else:
        outcome = "UNKNOWN"
    res = Result(
        outcome=outcome,
        exhausted=bool(exhausted),
        timed_out=timed_out,
        iterations=i,
        cpu_s=round(process_time() - condition_start, 2),
        wall_s=round(time.time() - t_wall, 2),
        smt_queries=SOLVER["queries"] - q0,
        smt_seconds=round(SOLVER["seconds"] - s0, 3),
        realizations=dict(sorted(REALIZATIONS.items(), key=lambda kv: -kv[1])[:8]),
        samples=samples,
        **stats,
    )
    if cex:
        res["counterexample"] = cex
    return res
