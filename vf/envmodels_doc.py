"""Text of the environment-model assumptions (importable without CrossHair)."""

ASSUMPTIONS = {
    "E1": "io.BytesIO replaced by a pure-Python file object (SymBytesIO) so written symbolic octets stay symbolic",
    "E2": "format(int, ''|'d'|'03d'|'02x'|'x') on a symbolic non-negative int computed by digit arithmetic",
    "E2b": "a harness container type carrying _vf_format_const renders as that constant in f-strings (socket address tuples inside the UnexpectedSource message; the message text is not the subject)",
    "E3": "`symbolic_int in b'...'` decided by equality against each member",
    "E3b": "b'%c' % x on a symbolic int x is bytes([x]) (OverflowError outside 0..255), as CPython computes it in C",
    "E4": "bytes.isdigit / bytes.isalnum on symbolic bytes decided arithmetically; int(symbolic bytes) routed through CrossHair's symbolic int(str)",
    "E5": "dns.enum.IntEnum.make / IntFlag(value) on a symbolic int: real range check, then the int itself",
    "E12": "& | ^ on symbolic ints in [0, 2^64) encoded as div/mod by powers of two (constant operand) or 64-bit bit-vectors",
}
ASSUMPTIONS.update({
    "E13": "str() of a keyword-style DNSException returns its un-interpolated format string (message texts are outside every property; str.format would realize symbolic durations)",
    "E6": "Name.__hash__/Rdata.__hash__ rebound to a constant in the analysis process (legal: equal objects still hash equal); dict/set membership is then decided by the real __eq__",
    "E7": "time.time()/sleep replaced by a harness-owned integer clock advanced by symbolic non-negative deltas",
    "E8": "dns.entropy.random_16/between fixed; rendering uses want_shuffle=False",
    "E9": "hmac / hashlib primitives replaced by an ideal (random-oracle) recorder: tags are equal iff input octet streams are equal",
    "E10": "threading.Lock/Event replaced by cooperative shims owned by the schedule explorer; code regenerated as coroutines from the current source by an AST rewrite",
    "E11": "sockets/back-ends replaced by scripted objects honouring only the documented socket contract",
})
