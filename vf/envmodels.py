"""Environment models (DESIGN 2.2): the fixed, listed set of substitutions that keep
dnspython values symbolic under CrossHair.  Importing this module installs E1-E5 and
E12 into CrossHair's patch registry; E6 (constant hash) is installed by vf.prelude.
Each model has a concrete self-test in vf.selftest."""

import builtins
import io

import z3 as _z3
import crosshair.core_and_libs  # noqa: F401  (registers the stock models first)
from crosshair.core import _PATCH_REGISTRATIONS, realize, register_patch
from crosshair.libimpl.builtinslib import (
    BytesLike,
    LazyIntSymbolicStr,
    SymbolicInt,
)
from crosshair.tracers import NoTracing, ResumedTracing, frame_stack_read, frame_stack_write

from vf.envmodels_doc import ASSUMPTIONS  # noqa: E402,F401

# ------------------------------------------------------------------ E2 format

_orig_format = _PATCH_REGISTRATIONS[builtins.format]


def _digits(v, n, base=10):
    out = []
    for i in range(n - 1, -1, -1):
        d = (v // (base**i)) % base
        if base == 10:
            out.append(48 + d)
        else:
            # 0-9 -> 48.., a-f -> 97..
            out.append(48 + d + 39 * (d // 10))
    return out


def fmt_codepoints(obj, spec):
    """Code points of format(obj, spec) for a non-negative int, or None if unsupported.
    Pure arithmetic: works on concrete and on symbolic ints alike."""
    if spec == "03d":
        if 0 <= obj <= 999:
            return _digits(obj, 3)
        return None
    if spec == "02x":
        if 0 <= obj <= 255:
            return _digits(obj, 2, 16)
        return None
    if spec in ("", "d"):
        if obj >= 0:
            n = 0
            if obj < 10:
                n = 1
            elif obj < 100:
                n = 2
            elif obj < 1000:
                n = 3
            elif obj < 10000:
                n = 4
            elif obj < 100000:
                n = 5
            elif obj < 1000000:
                n = 6
            elif obj < 10000000:
                n = 7
            elif obj < 100000000:
                n = 8
            elif obj < 1000000000:
                n = 9
            elif obj < 10000000000:
                n = 10
            if n:
                return _digits(obj, n)
        return None
    if spec == "x":
        if 0 <= obj:
            n = 0
            if obj < 16:
                n = 1
            elif obj < 256:
                n = 2
            elif obj < 4096:
                n = 3
            elif obj < 65536:
                n = 4
            if n:
                return _digits(obj, n, 16)
        return None
    return None


def _sym_format(obj, format_spec=""):
    with NoTracing():
        is_sym = isinstance(obj, SymbolicInt)
        spec = format_spec if type(format_spec) is str else realize(format_spec)
        const = getattr(type(obj), "_vf_format_const", None)
    if const is not None:
        # E2b: a harness-supplied container whose rendering (inside an exception message) is a constant
        return const
    if is_sym and spec in ("", "d", "03d", "02x", "x"):
        cps = fmt_codepoints(obj, spec)
        if cps is not None:
            with NoTracing():
                return LazyIntSymbolicStr(cps)
    return _orig_format(obj, format_spec)


_PATCH_REGISTRATIONS[builtins.format] = _sym_format


def _sym_str_of_int(obj):
    return _sym_format(obj, "")


# ------------------------------------------------------------------ E1 BytesIO


class SymBytesIO:
    """Pure-Python BytesIO that keeps symbolic contents symbolic."""

    def __init__(self, initial=b""):
        self._buf = initial
        self._pos = 0
        self.closed = False

    def write(self, b):
        n = len(b)
        if n == 0:
            return 0
        pos = self._pos
        buf = self._buf
        if pos == len(buf):
            self._buf = buf + b
        elif pos > len(buf):
            self._buf = buf + b"\x00" * (pos - len(buf)) + b
        else:
            self._buf = buf[:pos] + b + buf[pos + n :]
        self._pos = pos + n
        return n

    def tell(self):
        return self._pos

    def seek(self, pos, whence=0):
        if whence == 0:
            if pos < 0:
                raise ValueError("negative seek value %r" % (pos,))
            self._pos = pos
        elif whence == 1:
            self._pos = max(0, self._pos + pos)
        else:
            self._pos = max(0, len(self._buf) + pos)
        return self._pos

    def truncate(self, size=None):
        if size is None:
            size = self._pos
        if size < 0:
            raise ValueError("negative size value %r" % (size,))
        self._buf = self._buf[:size]
        return size

    def getvalue(self):
        return self._buf

    def getbuffer(self):
        return memoryview(realize(self._buf))

    def read(self, n=-1):
        if n is None or n < 0:
            out = self._buf[self._pos :]
        else:
            out = self._buf[self._pos : self._pos + n]
        self._pos += len(out)
        return out

    def close(self):
        self.closed = True

    def __enter__(self):
        return self

    def __exit__(self, *a):
        self.close()
        return False


def _bytesio(initial_bytes=b""):
    return SymBytesIO(initial_bytes)


register_patch(io.BytesIO, _bytesio)

# ------------------------------------------------------------------ E3 / E4

from crosshair import opcode_intercept as _oi  # noqa: E402


class _ByteSetContainer:
    def __init__(self, data):
        self.data = list(data)

    def __contains__(self, item):
        return any([item == b for b in self.data])


_orig_trace_op = _oi.ContainmentInterceptor.trace_op


def _trace_op(self, frame, codeobj, codenum):
    item = frame_stack_read(frame, -2)
    if isinstance(item, SymbolicInt):
        container = frame_stack_read(frame, -1)
        if type(container) is bytes:
            frame_stack_write(frame, -1, _ByteSetContainer(container))
            return
    return _orig_trace_op(self, frame, codeobj, codenum)


_oi.ContainmentInterceptor.trace_op = _trace_op


# E3b: b"%c" % <symbolic int> (dns.tokenizer.Token.unescape_to_bytes) is bytes([x]); CPython's bytes formatting
# is C code and would realize x (one octet value per path).
class _PercentC:
    def __mod__(self, x):
        if not (0 <= x <= 255):
            raise OverflowError("%c arg not in range(256)")
        return bytes([x])


_orig_mod_trace_op = _oi.ModuloInterceptor.trace_op


def _mod_trace_op(self, frame, codeobj, codenum):
    left = frame_stack_read(frame, -2)
    if type(left) is bytes and left == b"%c" and isinstance(frame_stack_read(frame, -1), SymbolicInt):
        if codenum == _oi.BINARY_OP and _oi.frame_op_arg(frame) != 6:
            return
        frame_stack_write(frame, -2, _PercentC())
        return
    return _orig_mod_trace_op(self, frame, codeobj, codenum)


_oi.ModuloInterceptor.trace_op = _mod_trace_op


def _isdigit(self):
    cps = self._ch_codepoints
    if len(cps) == 0:
        return False
    return all([(48 <= b) & (b <= 57) for b in cps])


BytesLike.isdigit = _isdigit


def _isalnum(self):
    cps = self._ch_codepoints
    if len(cps) == 0:
        return False
    return all([((48 <= b) & (b <= 57)) | ((65 <= b) & (b <= 90)) | ((97 <= b) & (b <= 122)) for b in cps])


BytesLike.isalnum = _isalnum

# int(symbolic bytes) -> CrossHair's own symbolic int(str) on the same code points.
from crosshair.util import CrossHairValue  # noqa: E402

_orig_int = _PATCH_REGISTRATIONS[builtins.int]
_real_int = builtins.int


_int_depth = [0]


def _sym_int(*a, **k):
    with NoTracing():
        anysym = any(isinstance(x, CrossHairValue) for x in a) or any(isinstance(x, CrossHairValue) for x in k.values())
        symbytes = False
        if anysym:
            symbytes = len(a) == 1 and not k and isinstance(a[0], BytesLike) and isinstance(a[0], CrossHairValue)
            if symbytes:
                cps = a[0]._ch_codepoints
                if not isinstance(cps, list):
                    symbytes = False
        if not anysym and (_int_depth[0] > 0 or all(isinstance(x, (_real_int, str, bytes, float, bytearray)) for x in a)):
            # concrete value (including the final int(val) of CrossHair's own model): the real int
            return _real_int(*a, **k)
    _int_depth[0] += 1
    try:
        if symbytes:
            with NoTracing():
                s = LazyIntSymbolicStr(list(cps))
            return _orig_int(s)
        return _orig_int(*a, **k)
    finally:
        _int_depth[0] -= 1


_PATCH_REGISTRATIONS[builtins.int] = _sym_int

# ------------------------------------------------------------------ E5 enums

import dns.enum  # noqa: E402
import dns.flags  # noqa: E402
import dns.opcode  # noqa: E402
import dns.rdtypes.dnskeybase  # noqa: E402

_orig_make = dns.enum.IntEnum.make.__func__


def _make(cls, value):
    with NoTracing():
        sym = isinstance(value, SymbolicInt)
    if sym:
        cls._check_value(value)
        return value
    return _orig_make(cls, value)


register_patch(_orig_make, _make)

_orig_enum_to_text = dns.enum.IntEnum.to_text.__func__


def _enum_to_text(cls, value):
    # names need the concrete member: realize here (CrossHair forks "= v / != v")
    with NoTracing():
        sym = isinstance(value, SymbolicInt)
    if sym:
        cls._check_value(value)
        value = realize(value)
    return _orig_enum_to_text(cls, value)


register_patch(_orig_enum_to_text, _enum_to_text)


def _mk_flag_patch(flagcls):
    def _flag(value):
        with NoTracing():
            sym = isinstance(value, SymbolicInt)
        if sym:
            return value
        return flagcls(value)

    return _flag


_FLAG_CLASSES = [dns.flags.Flag, dns.flags.EDNSFlag, dns.rdtypes.dnskeybase.Flag, dns.opcode.Opcode]
try:
    import dns.btreezone as _bz

    _FLAG_CLASSES.append(_bz.NodeFlags)
except Exception:  # pragma: no cover
    pass
for _f in _FLAG_CLASSES:
    register_patch(_f, _mk_flag_patch(_f))

# ------------------------------------------------------------------ E12 bitwise

_W = 64


def _is_sym(x):
    return isinstance(x, SymbolicInt)


def _and_const(a, m):
    res = 0
    bit = 0
    mm = m
    while mm:
        if mm & 1:
            lo = bit
            while mm & 1:
                mm >>= 1
                bit += 1
            width = bit - lo
            res = res + ((a // (1 << lo)) % (1 << width)) * (1 << lo)
        else:
            mm >>= 1
            bit += 1
    return res


def _bv(op, a, b):
    with NoTracing():
        av = a.var if _is_sym(a) else _z3.IntVal(int(a))
        bv = b.var if _is_sym(b) else _z3.IntVal(int(b))
        r = _z3.BV2Int(op(_z3.Int2BV(av, _W), _z3.Int2BV(bv, _W)), False)
        return SymbolicInt(r)


def _bitop(name, pyop, bvop):
    orig = getattr(SymbolicInt, name)

    def f(self, other):
        with NoTracing():
            osym = _is_sym(other)
            oint = isinstance(other, int) and not isinstance(other, bool) and not osym
        if not (osym or oint):
            return orig(self, other)
        if self < 0 or self >= (1 << _W) or other < 0 or other >= (1 << _W):
            return orig(self, other)
        if oint:
            m = int(other)
            a = _and_const(self, m)
            if pyop == "and":
                return a
            if pyop == "or":
                return self + m - a
            return self + m - 2 * a
        return _bv(bvop, self, other)

    return f


for _n, _p, _b in (
    ("__and__", "and", lambda x, y: x & y),
    ("__or__", "or", lambda x, y: x | y),
    ("__xor__", "xor", lambda x, y: x ^ y),
):
    _fn = _bitop(_n, _p, _b)
    setattr(SymbolicInt, _n, _fn)
    setattr(SymbolicInt, "__r" + _n[2:], _fn)
