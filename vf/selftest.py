"""Concrete self-tests of the environment models (run at the start of every check)."""

import io
import itertools
import random
import sys

import vf.prelude  # noqa: F401
from vf import envmodels as em


def t_format():
    vals = list(range(0, 70000)) + [10**k + d for k in range(5, 10) for d in (-1, 0, 1)] + [2**32 - 1, 2**31, 9999999999]
    for v in vals:
        for spec in ("", "d", "03d", "02x", "x"):
            cps = em.fmt_codepoints(v, spec)
            if cps is None:
                continue
            assert "".join(map(chr, cps)) == format(v, spec), (v, spec)
    assert em.fmt_codepoints(1000, "03d") is None and em.fmt_codepoints(256, "02x") is None


def t_bytesio():
    alphabet = [("w", b"ab"), ("w", b""), ("w", b"xyz"), ("s", 0), ("s", 1), ("s", 4), ("t", None), ("t", 1), ("r", 2), ("e", -1)]
    for n in range(1, 5):
        for seq in itertools.product(alphabet, repeat=n):
            a, b = io.BytesIO(), em.SymBytesIO()
            for op, arg in seq:
                if op == "w":
                    ra, rb = a.write(arg), b.write(arg)
                elif op == "s":
                    ra, rb = a.seek(arg), b.seek(arg)
                elif op == "t":
                    ra, rb = a.truncate(arg), b.truncate(arg)
                elif op == "r":
                    ra, rb = a.read(arg), b.read(arg)
                else:
                    ra, rb = a.seek(arg, 2) if False else a.seek(0, 2), b.seek(0, 2)
                assert ra == rb, (seq, op, ra, rb)
                assert a.tell() == b.tell() and a.getvalue() == b.getvalue(), seq


def t_contains_isdigit():
    c = em._ByteSetContainer(b'"().;\\@$')
    for i in range(256):
        assert (i in c) == (i in b'"().;\\@$')

    class Fake:
        def __init__(self, b):
            self._ch_codepoints = list(b)

    for a in range(256):
        assert em._isdigit(Fake(bytes([a]))) == bytes([a]).isdigit()
        for b in (0, 47, 48, 57, 58, 255):
            assert em._isdigit(Fake(bytes([a, b]))) == bytes([a, b]).isdigit()
    assert em._isdigit(Fake(b"")) is False
    for a in range(256):
        for b in (None, 0, 47, 48, 65, 90, 91, 97, 122, 123, 200):
            x = bytes([a]) if b is None else bytes([a, b])
            assert bool(em._isalnum(Fake(x))) == x.isalnum(), x
    assert em._isalnum(Fake(b"")) is False


def t_bitops():
    rnd = random.Random(1)
    pairs = [(a, b) for a in range(64) for b in range(64)]
    pairs += [(rnd.getrandbits(rnd.choice([8, 16, 32, 48, 64])), rnd.getrandbits(rnd.choice([8, 16, 32, 48, 64]))) for _ in range(20000)]
    for a, m in pairs:
        x = em._and_const(a, m)
        assert x == a & m
        assert a + m - x == a | m
        assert a + m - 2 * x == a ^ m


def t_enums():
    import dns.dnssectypes
    import dns.edns
    import dns.enum
    import dns.flags
    import dns.opcode
    import dns.rcode
    import dns.rdataclass
    import dns.rdatatype

    for cls in (dns.rdatatype.RdataType, dns.rdataclass.RdataClass, dns.rcode.Rcode, dns.opcode.Opcode,
                dns.edns.OptionType, dns.dnssectypes.Algorithm, dns.dnssectypes.NSEC3Hash, dns.dnssectypes.DSDigest):
        mx = cls._maximum()
        step = 1 if mx <= 65535 else 257
        for v in range(0, mx + 1, step):
            m = cls.make(v)
            assert int(m) == v and m == v, (cls, v)
    for v in range(0, 65536, 7):
        assert int(dns.flags.Flag(v)) == v and int(dns.flags.EDNSFlag(v)) == v


def t_symbolic():
    """One short run under the tracer: the models agree with their arithmetic spec."""
    from vf.engine import explore

    def f1(x: int) -> bool:
        s = format(x, "03d")
        return len(s) == 3 and s[0] == chr(48 + x // 100) and s[2] == chr(48 + x % 10)

    def f2(x: int) -> bool:
        ok = (x | 0x400) == x + 0x400 - (x & 0x400)
        ok = ok and ((x & 0x3F0) == ((x // 16) % 64) * 16)
        ok = ok and ((x ^ 0xFF) + (x & 0xFF) * 2 == x + 0xFF)
        return ok

    def f3(x: int, y: int) -> bool:
        return (x ^ y) == (x | y) - (x & y) and (x & y) <= x

    def f4(x: int, y: int) -> bool:
        b = io.BytesIO()
        b.write(bytes([x]))
        b.write(b"z")
        b.seek(0)
        b.write(bytes([y]))
        v = b.getvalue()
        pc = b"%c" % (x)  # E3b
        return v == bytes([y]) + b"z" and (x in b"01") == (x == 48 or x == 49) and pc == bytes([x]) and len(pc) == 1

    for fn, pre in ((f1, lambda x: 0 <= x <= 999), (f2, lambda x: 0 <= x < 65536),
                    (f3, lambda x, y: 0 <= x < 256 and 0 <= y < 256), (f4, lambda x, y: 0 <= x < 256 and 0 <= y < 256)):
        r = explore(fn, pre, timeout=40, per_path_timeout=20)
        assert r["outcome"] == "CONFIRMED", (fn.__name__, r)


def main():
    for t in (t_format, t_bytesio, t_contains_isdigit, t_bitops, t_enums, t_symbolic):
        t()
    print("envmodel self-tests ok")


if __name__ == "__main__":
    main()
