"""What a harness module sees: the Harness record and the current shard."""

from typing import Any, Callable, Dict, List, Optional

SHARD: Dict[str, Any] = {}


def S(key: str, default: Any = None) -> Any:
    return SHARD.get(key, default)


class Harness:
    def __init__(
        self,
        hid: str,
        fn: Callable,
        pre: Optional[Callable] = None,
        shards: Optional[Callable[[str], List[Dict[str, Any]]]] = None,
        *,
        kind: str = "universal",
        encodes: Optional[List[str]] = None,
        bound: str = "",
        stubs: Optional[List[str]] = None,
        outside: str = "",
        doc: str = "",
        setup: Optional[Callable[[], None]] = None,
        min_ok_paths: int = 1,
        batch: int = 1,
    ):
        self.hid = hid
        self.fn = fn
        self.pre = pre
        self.shards = shards or (lambda tier: [{}])
        self.kind = kind
        self.encodes = encodes or []
        self.bound = bound
        self.stubs = stubs or []
        self.outside = outside
        self.doc = doc or (fn.__doc__ or "").strip()
        self.setup = setup
        self.min_ok_paths = min_ok_paths
        self.batch = batch


# counters a harness may bump on the paths that matter (vacuity guard, DESIGN 1)
COUNTERS: Dict[str, int] = {}


def hit(name: str) -> None:
    COUNTERS[name] = COUNTERS.get(name, 0) + 1


def concrete():
    """Context in which code runs untraced (fast, concrete): used for building fixed
    fixtures inside a path.  A no-op in the plain replay interpreter."""
    import os

    if os.environ.get("VF_PLAIN") == "1":
        import contextlib

        return contextlib.nullcontext()
    from crosshair.tracers import NoTracing

    return NoTracing()
