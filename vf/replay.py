"""Concrete replay in a plain interpreter (VF_PLAIN=1: no CrossHair, no envmodels).

  python -m vf.replay <replay.json>          exit 0: violation reproduces; 4: it does not
  python -m vf.replay --samples <file.json>  re-run confirmed-path samples; they must pass
"""

import importlib
import json
import os
import sys
import traceback

os.environ["VF_PLAIN"] = "1"


def _eval_args(mod, args):
    env = dict(mod.__dict__)
    return {k: eval(v, env) for k, v in args.items()}


def run_one(module, hid, shard, args, check_pre=True):
    import vf.prelude  # noqa: F401
    from vf import api

    mod = importlib.import_module(module)
    h = [x for x in mod.HARNESSES if x.hid == hid][0]
    api.SHARD.clear()
    api.SHARD.update(shard)
    if h.setup:
        h.setup()
    a = _eval_args(mod, args)
    if check_pre and h.pre is not None and not h.pre(**a):
        return {"verdict": "PRE_FALSE"}
    try:
        r = h.fn(**a)
    except Exception as e:
        return {"verdict": "FAIL", "observed": "raised %s: %s" % (type(e).__name__, str(e)[:300]),
                "traceback": "".join(traceback.format_exception(e))[-1500:]}
    if r is True or bool(r):
        return {"verdict": "PASS"}
    return {"verdict": "FAIL", "observed": "harness returned %r (property assertion false)" % (r,)}


def main(argv):
    if argv and argv[0] == "--samples":
        with open(argv[1]) as f:
            todo = json.load(f)
        bad = []
        n = 0
        for item in todo:
            r = run_one(item["module"], item["hid"], item["shard"], item["args"])
            n += 1
            if r["verdict"] != "PASS":
                bad.append({"item": item, "result": r})
        print(json.dumps({"replayed": n, "bad": bad}))
        return 0 if not bad else 4
    with open(argv[0]) as f:
        rp = json.load(f)
    r = run_one(rp["module"], rp["harness"], rp.get("shard", {}), rp["args"], check_pre=not rp.get("skip_pre"))
    print(json.dumps(r))
    return 0 if r["verdict"] == "FAIL" else 4


if __name__ == "__main__":
    sys.exit(main(sys.argv[1:]))
