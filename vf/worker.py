"""Run a batch of shards of one harness under CrossHair; write one result per shard."""

import importlib
import inspect
import json
import os
import sys
import time
import traceback


def main(jobfile):
    with open(jobfile) as f:
        job = json.load(f)
    out = []
    t0 = time.time()
    try:
        import vf.prelude  # noqa: F401
        from vf import api, engine, known

        mod = importlib.import_module(job["module"])
        h = [x for x in mod.HARNESSES if x.hid == job["hid"]][0]
    except BaseException as e:  # noqa
        out = [{"outcome": "ERROR", "error": "import: " + "".join(traceback.format_exception(e))[-2000:]} for _ in job["shards"]]
        with open(jobfile + ".out", "w") as f:
            json.dump(out, f)
        return
    excl = [e for e in known.open_for(module=job["module"], hid=job["hid"]) if e.get("exclude")]
    params = list(inspect.signature(h.fn).parameters)
    for shard in job["shards"]:
        api.SHARD.clear()
        api.SHARD.update(shard)
        api.COUNTERS.clear()
        try:
            if h.setup:
                h.setup()
            base_pre = h.pre
            codes = [compile(e["exclude"], "<known:%s>" % e["id"], "eval") for e in excl]

            def pre(*a, **k):
                if base_pre is not None and not base_pre(*a, **k):
                    return False
                if codes:
                    env = dict(zip(params, a))
                    env.update(k)
                    env["S"] = api.SHARD
                    for c in codes:
                        if eval(c, mod.__dict__, env):
                            return False
                return True

            def fn(*a, **k):
                vf.prelude.reset_path_state()
                return h.fn(*a, **k)

            fn.__signature__ = inspect.signature(h.fn)
            res = engine.explore(
                fn,
                pre,
                timeout=float(shard.get("_timeout", job.get("timeout", 60))),
                per_path_timeout=float(shard.get("_path_timeout", job.get("path_timeout", 30))),
                max_samples=int(job.get("max_samples", 2)),
            )
            res["counters"] = dict(api.COUNTERS)
        except BaseException as e:  # noqa
            res = {"outcome": "ERROR", "error": "".join(traceback.format_exception(e))[-3000:]}
        res["shard"] = shard
        out.append(res)
        with open(jobfile + ".out", "w") as f:
            json.dump(out, f)
    with open(jobfile + ".out", "w") as f:
        json.dump(out, f)


if __name__ == "__main__":
    main(sys.argv[1])
