"""./run check Cxx --tier quick|thorough   |   ./run replay <file>   |   ./run selftest"""

import argparse
import hashlib
import importlib
import inspect
import json
import os
import random
import shutil
import subprocess
import sys
import time

HERE = os.path.dirname(os.path.dirname(os.path.abspath(__file__)))
PY = os.path.join(HERE, ".venv", "bin", "python")
NCPU = min(16, os.cpu_count() or 4)

# The registered checks always analyse /repo's working tree.  VF_REPO is a testing aid only: tools/try_seeded.sh points
# it at a scratch worktree carrying a seeded change so that mutants can be tried without touching /repo; evidence of
# such a run goes to .work/evidence-alt/, never to evidence/.
REPO = os.environ.get("VF_REPO", "/repo")

EXIT_OK, EXIT_VIOLATION, EXIT_INCONCLUSIVE, EXIT_HARNESS = 0, 1, 2, 3


def child_env(plain=False):
    env = dict(os.environ)
    env["PYTHONPATH"] = REPO + ":" + HERE
    env["PYTHONHASHSEED"] = "0"
    env["PYTHONDONTWRITEBYTECODE"] = "1"
    if plain:
        env["VF_PLAIN"] = "1"
    else:
        env.pop("VF_PLAIN", None)
    return env


def src_sha(dotted):
    """sha256 of the current source of a dnspython function/class named by dotted path."""
    parts = dotted.split(".")
    for i in range(len(parts), 0, -1):
        try:
            obj = importlib.import_module(".".join(parts[:i]))
        except Exception:
            continue
        try:
            for p in parts[i:]:
                obj = getattr(obj, p)
            obj = getattr(obj, "__func__", obj)
            obj = inspect.unwrap(obj) if callable(obj) else obj
            src = inspect.getsource(obj)
            return hashlib.sha256(src.encode()).hexdigest()[:16]
        except Exception:
            return "unresolved"
    return "unresolved"


def run_pool(jobs, workdir, tier, log):
    """jobs: list of dict(module,hid,shards,timeout,path_timeout); returns results per job."""
    pending = list(enumerate(jobs))
    running = {}
    results = [None] * len(jobs)
    while pending or running:
        while pending and len(running) < NCPU:
            idx, job = pending.pop(0)
            jf = os.path.join(workdir, "job%04d.json" % idx)
            with open(jf, "w") as f:
                json.dump(job, f)
            budget = sum(float(s.get("_timeout", job.get("timeout", 60))) for s in job["shards"])
            p = subprocess.Popen(
                [PY, "-m", "vf.worker", jf],
                env=child_env(),
                cwd=HERE,
                stdout=open(jf + ".log", "w"),
                stderr=subprocess.STDOUT,
            )
            running[idx] = (p, jf, time.time(), budget * 2.0 + 60 + 20 * len(job["shards"]))
        time.sleep(0.05)
        for idx in list(running):
            p, jf, t0, limit = running[idx]
            rc = p.poll()
            if rc is None and time.time() - t0 > limit:
                p.kill()
                p.wait()
                rc = -9
            if rc is None:
                continue
            del running[idx]
            res = []
            if os.path.exists(jf + ".out"):
                try:
                    with open(jf + ".out") as f:
                        res = json.load(f)
                except Exception:
                    res = []
            shards = jobs[idx]["shards"]
            while len(res) < len(shards):
                tail = ""
                try:
                    with open(jf + ".log") as f:
                        tail = f.read()[-1500:]
                except Exception:
                    pass
                res.append({"outcome": "ERROR" if rc != -9 else "UNKNOWN", "error": "worker exit %s; %s" % (rc, tail),
                            "shard": shards[len(res)], "unknown_reasons": {"worker_killed": 1}})
            results[idx] = res
            for r in res:
                log("  %-6s %-9s paths=%-5s ok=%-5s cpu=%-6s %s" % (
                    jobs[idx]["hid"], r["outcome"], r.get("paths", "-"), r.get("ok_paths", "-"), r.get("cpu_s", "-"),
                    json.dumps({k: v for k, v in r["shard"].items() if not k.startswith("_")})[:100]))
    return results


def plain_replay(path):
    p = subprocess.run([PY, "-m", "vf.replay", path], env=child_env(plain=True), cwd=HERE,
                       capture_output=True, text=True, timeout=600)
    try:
        info = json.loads(p.stdout.strip().splitlines()[-1])
    except Exception:
        info = {"verdict": "ERROR", "stderr": p.stderr[-1500:], "stdout": p.stdout[-500:]}
    return p.returncode, info


def cmd_check(prop, tier, only=None, verbose=True, match=None):
    t0 = time.time()
    seed = int(os.environ.get("VERIF_SEED", "0") or 0)
    subprocess.run([os.path.join(HERE, "setup.sh")], check=True, cwd=HERE, stdout=subprocess.DEVNULL)
    os.environ["VF_PLAIN"] = "1"
    sys.path.insert(0, REPO)
    sys.path.insert(0, HERE)
    from vf import known

    def log(msg):
        if verbose:
            print(msg, flush=True)

    modname = "harness." + prop
    mod = importlib.import_module(modname)
    harnesses = [h for h in mod.HARNESSES if only is None or h.hid in only]
    workdir = os.path.join(HERE, ".work", "%s-%d" % (prop, os.getpid()))
    shutil.rmtree(workdir, ignore_errors=True)
    os.makedirs(workdir)
    os.makedirs(os.path.join(HERE, "replays"), exist_ok=True)
    os.makedirs(os.path.join(HERE, "evidence"), exist_ok=True)
    exit_code = EXIT_OK
    problems = []

    # 0. envmodel self-tests
    st = subprocess.run([PY, "-m", "vf.selftest"], env=child_env(), cwd=HERE, capture_output=True, text=True)
    if st.returncode != 0:
        print("HARNESS-ERROR envmodel self-test failed:\n" + st.stdout[-2000:] + st.stderr[-2000:])
        return EXIT_HARNESS

    # 1. known findings: replay each open witness on the current tree
    known_lines = []
    for e in known.open_for(prop=prop):
        wf = os.path.join(workdir, "known-%s.json" % e["id"])
        with open(wf, "w") as f:
            json.dump({"property": prop, "module": e["module"], "harness": e["harness"],
                       "shard": e["witness"].get("shard", {}), "args": e["witness"]["args"], "skip_pre": True}, f)
        rc, info = plain_replay(wf)
        if rc == 0:
            line = "KNOWN-FINDING: property=%s %s [%s]" % (prop, e["what"], e["id"])
            print(line, flush=True)
            known_lines.append(line)
        else:
            log("note: known finding %s no longer reproduces on this tree (%s)" % (e["id"], info.get("verdict")))

    # 2. shards
    jobs = []
    for h in harnesses:
        shards = h.shards(tier)
        if match:
            shards = [sh for sh in shards if all(sh.get(k) == v for k, v in match.items())]
        rnd = random.Random(seed)
        batch = max(1, int(getattr(h, "batch", 1)))
        order = list(shards)
        if seed:
            rnd.shuffle(order)
        for i in range(0, len(order), batch):
            jobs.append({"module": modname, "hid": h.hid, "shards": order[i:i + batch], "tier": tier,
                         "timeout": 60, "path_timeout": 30, "max_samples": 2})
    # longest first: by the cost measured in the last full run of this tier on the unchanged tree (costs/<id>.json,
    # committed; purely a scheduling hint), else by budget
    costs = {}
    try:
        with open(os.path.join(HERE, "costs", "%s-%s.json" % (prop, tier))) as f:
            costs = json.load(f)
    except Exception:
        costs = {}

    def shard_key(hid, sh):
        return hid + " " + json.dumps({k: v for k, v in sh.items() if not k.startswith("_")}, sort_keys=True)

    def job_cost(j):
        tot = 0.0
        for sh in j["shards"]:
            c = costs.get(shard_key(j["hid"], sh))
            tot += float(c) if c is not None else float(sh.get("_timeout", 60)) / 4.0
        return tot

    jobs.sort(key=lambda j: -job_cost(j))
    log("%s %s: %d harnesses, %d shards, %d worker jobs on %d cores" % (
        prop, tier, len(harnesses), sum(len(j["shards"]) for j in jobs), len(jobs), NCPU))
    results = run_pool(jobs, workdir, tier, log)

    # 2b. one retry of inconclusive shards with doubled budgets (the machine is mostly idle by now, so a solver
    #     query that ran into its wall-clock limit under load gets a second chance; never turns a REFUTED into a pass)
    retried = 0
    if os.environ.get("VF_NO_RETRY") != "1":
        rjobs, where = [], []
        for ji, (job, res) in enumerate(zip(jobs, results)):
            for ri, r in enumerate(res):
                if r["outcome"] == "UNKNOWN":
                    sh = dict(r["shard"])
                    sh["_timeout"] = 2 * float(sh.get("_timeout", job.get("timeout", 60)))
                    sh["_path_timeout"] = 2 * float(sh.get("_path_timeout", job.get("path_timeout", 30)))
                    rj = dict(job)
                    rj["shards"] = [sh]
                    rjobs.append(rj)
                    where.append((ji, ri))
        if rjobs:
            log("retrying %d inconclusive shards with doubled budgets" % len(rjobs))
            rdir = os.path.join(workdir, "retry")
            os.makedirs(rdir, exist_ok=True)
            rres = run_pool(rjobs, rdir, tier, log)
            for (ji, ri), rr in zip(where, rres):
                if rr and rr[0]["outcome"] != "UNKNOWN":
                    rr[0]["retried"] = True
                    rr[0]["shard"] = dict(rr[0]["shard"], _timeout=results[ji][ri]["shard"].get("_timeout"), _path_timeout=results[ji][ri]["shard"].get("_path_timeout"))
                    results[ji][ri] = rr[0]
                    retried += 1

    # 3. aggregate
    per_h = {}
    all_samples = []
    violations = 0
    for job, res in zip(jobs, results):
        d = per_h.setdefault(job["hid"], {"shards": 0, "confirmed": 0, "refuted": 0, "unknown": 0, "unreached": 0,
                                          "error": 0, "paths": 0, "ok_paths": 0, "pre_rejected": 0,
                                          "smt_queries": 0,
                                          "smt_seconds": 0.0, "cpu_s": 0.0, "realizations": {}, "samples": [],
                                          "shard_outcomes": [], "counters": {}})
        for r in res:
            d["shards"] += 1
            o = r["outcome"]
            key = {"CONFIRMED": "confirmed", "REFUTED": "refuted", "UNKNOWN": "unknown", "UNREACHED": "unreached",
                   "ERROR": "error"}[o]
            d[key] += 1
            for k in ("paths", "ok_paths", "pre_rejected", "smt_queries"):
                d[k] += int(r.get(k, 0))
            d["smt_seconds"] += float(r.get("smt_seconds", 0))
            d["cpu_s"] += float(r.get("cpu_s", 0))
            for k, v in r.get("realizations", {}).items():
                d["realizations"][k] = d["realizations"].get(k, 0) + v
            for k, v in r.get("counters", {}).items():
                d["counters"][k] = d["counters"].get(k, 0) + v
            pub = {k: v for k, v in r["shard"].items() if not k.startswith("_")}
            d["shard_outcomes"].append({"shard": pub, "outcome": o, "paths": r.get("paths", 0),
                                        "ok_paths": r.get("ok_paths", 0), "cpu_s": r.get("cpu_s", 0),
                                        **({"why": r.get("unknown_reasons") or r.get("error", "")[:300] or
                                            ("timeout" if r.get("timed_out") else "")} if o not in ("CONFIRMED",) else {})})
            for s in r.get("samples", []):
                item = {"module": modname, "hid": job["hid"], "shard": r["shard"], "args": s}
                all_samples.append(item)
                if len(d["samples"]) < 4:
                    d["samples"].append({"shard": pub, "args": s})
            if o == "REFUTED":
                cex = r["counterexample"]
                hsh = hashlib.sha256(json.dumps([job["hid"], r["shard"], cex["args"]], sort_keys=True).encode()).hexdigest()[:10]
                rp = os.path.join(HERE, "replays", "%s-%s-%s.json" % (prop, job["hid"], hsh))
                with open(rp, "w") as f:
                    json.dump({"property": prop, "module": modname, "harness": job["hid"], "shard": r["shard"],
                               "args": cex["args"], "symbolic_observation": {k: v for k, v in cex.items() if k != "args"}},
                              f, indent=1)
                rc, info = plain_replay(rp)
                if rc == 0:
                    with open(rp) as f:
                        doc = json.load(f)
                    doc["concrete_replay"] = info
                    with open(rp, "w") as f:
                        json.dump(doc, f, indent=1)
                    print("VIOLATION property=%s replay=%s" % (prop, rp), flush=True)
                    log("  %s %s: %s" % (job["hid"], json.dumps(cex["args"])[:300], info.get("observed")))
                    violations += 1
                    exit_code = max(exit_code, EXIT_VIOLATION) if exit_code != EXIT_HARNESS else exit_code
                else:
                    problems.append("counterexample of %s does not reproduce concretely (%s): %s" % (
                        job["hid"], info.get("verdict"), json.dumps(cex)[:400]))
                    if exit_code == EXIT_OK or exit_code == EXIT_INCONCLUSIVE:
                        exit_code = EXIT_HARNESS
            elif o == "UNKNOWN":
                problems.append("inconclusive shard %s %s: %s" % (job["hid"], json.dumps(pub), r.get("unknown_reasons") or "deadline"))
                if exit_code == EXIT_OK:
                    exit_code = EXIT_INCONCLUSIVE
            elif o in ("UNREACHED", "ERROR"):
                problems.append("%s shard %s %s: %s" % (o, job["hid"], json.dumps(pub), r.get("error", "")[-600:]))
                if exit_code in (EXIT_OK, EXIT_INCONCLUSIVE):
                    exit_code = EXIT_HARNESS
    # vacuity: every harness needs accepted paths
    for h in harnesses:
        d = per_h.get(h.hid)
        if d and d["ok_paths"] < h.min_ok_paths and d["refuted"] == 0:
            problems.append("vacuity: harness %s reached its verdict on %d paths only" % (h.hid, d["ok_paths"]))
            if exit_code in (EXIT_OK, EXIT_INCONCLUSIVE):
                exit_code = EXIT_HARNESS

    # 4. replay the sampled confirmed paths without any stub: verdicts must agree
    sample_replay = {"replayed": 0, "bad": []}
    if all_samples:
        sf = os.path.join(workdir, "samples.json")
        pick = all_samples if len(all_samples) <= 400 else random.Random(seed).sample(all_samples, 400)
        with open(sf, "w") as f:
            json.dump(pick, f)
        p = subprocess.run([PY, "-m", "vf.replay", "--samples", sf], env=child_env(plain=True), cwd=HERE,
                           capture_output=True, text=True)
        try:
            sample_replay = json.loads(p.stdout.strip().splitlines()[-1])
        except Exception:
            sample_replay = {"replayed": 0, "bad": [{"error": p.stderr[-1500:]}]}
        if sample_replay["bad"]:
            problems.append("sample replay without stubs disagrees: " + json.dumps(sample_replay["bad"][:2])[:1500])
            if exit_code in (EXIT_OK, EXIT_INCONCLUSIVE):
                exit_code = EXIT_HARNESS

    # 5. evidence
    wall = time.time() - t0
    n_shards = sum(d["shards"] for d in per_h.values())
    n_conf = sum(d["confirmed"] for d in per_h.values())
    ev_h = []
    stubs = {"E13"}  # installed by the prelude for every harness
    for h in harnesses:
        d = per_h.get(h.hid, {})
        stubs.update(h.stubs)
        ev_h.append({
            "harness": h.hid, "kind": h.kind, "what": h.doc, "bound": h.bound, "outside_claim": h.outside,
            "functions_encoded": {n: src_sha(n) for n in h.encodes},
            "stubs": h.stubs,
            **{k: d.get(k) for k in ("shards", "confirmed", "refuted", "unknown", "unreached", "error", "paths",
                                     "ok_paths", "pre_rejected", "smt_queries", "counters")},
            "smt_seconds": round(d.get("smt_seconds", 0.0), 2), "cpu_s": round(d.get("cpu_s", 0.0), 1),
            "top_realization_sites": dict(sorted(d.get("realizations", {}).items(), key=lambda kv: -kv[1])[:5]),
            "shard_outcomes": d.get("shard_outcomes", []) if len(d.get("shard_outcomes", [])) <= 80 else
            d["shard_outcomes"][:80] + [{"truncated": len(d["shard_outcomes"]) - 80}],
            "samples": d.get("samples", []),
        })
    try:
        from vf.envmodels_doc import ASSUMPTIONS
    except Exception:
        ASSUMPTIONS = {}
    samples_out = []
    for e in ev_h:
        for s in e["samples"][:2]:
            samples_out.append({"harness": e["harness"], **s})
    evidence = {
        "property_id": prop,
        "tier": tier,
        "seed": seed,
        "level": "other",
        "coverage": {
            "explanation": "bounded symbolic execution of the real dnspython code (imported from /repo's working tree) "
                           "with CrossHair 0.0.110 + z3; an obligation is one (harness, shard); it is discharged when the "
                           "path tree was exhausted and z3 proved the harness assertion on every feasible path inside the "
                           "stated bound. Nothing outside the bounds listed per harness is claimed.",
            "obligations": n_shards,
            "discharged": n_conf,
            "evaluations": sum(d["paths"] for d in per_h.values()),
            "distinct_nontrivial": sum(d["ok_paths"] for d in per_h.values()),
            "rule": "evaluations = feasible symbolic paths executed to a verdict (each path stands for every input "
                    "satisfying its branch conditions; distinct by construction of the path tree); non-trivial = paths that "
                    "satisfied the pre-condition and reached the property assertion with verdict True",
            "samples": samples_out[:12] or [{"note": "no sample"}],
            "exhaustive": bool(n_shards and n_conf == n_shards),
            "checker_cmd": "./run check %s --tier %s" % (prop, tier),
            "harnesses": ev_h,
            "smt_queries": sum(d["smt_queries"] for d in per_h.values()),
            "smt_seconds": round(sum(d["smt_seconds"] for d in per_h.values()), 2),
            "sample_replay_without_stubs": {"replayed": sample_replay.get("replayed", 0), "disagreements": len(sample_replay.get("bad", []))},
            "known_findings_reported": known_lines,
            "shards_decided_on_retry": retried,
            "problems": problems,
            "exit_code": exit_code,
        },
        "assumptions": sorted("%s: %s" % (k, ASSUMPTIONS.get(k, "")) for k in stubs) + [
            "CrossHair's symbolic models of int/bytes/str/list/tuple/bool are faithful to CPython",
            "z3 answers unsat/sat correctly",
        ],
        "wall_s": round(wall, 1),
        "violations": violations,
    }
    if REPO == "/repo" and only is None and match is None and exit_code == 0:
        try:
            os.makedirs(os.path.join(HERE, "costs"), exist_ok=True)
            newc = {}
            for job, res in zip(jobs, results):
                for r in res:
                    newc[shard_key(job["hid"], r["shard"])] = round(float(r.get("cpu_s", 0)) + 3.0, 1)
            with open(os.path.join(HERE, "costs", "%s-%s.json" % (prop, tier)), "w") as f:
                json.dump(newc, f, indent=0, sort_keys=True)
        except Exception:
            pass
    evdir = os.path.join(HERE, "evidence") if REPO == "/repo" else os.path.join(HERE, ".work", "evidence-alt")
    os.makedirs(evdir, exist_ok=True)
    with open(os.path.join(evdir, prop + ".json"), "w") as f:
        json.dump(evidence, f, indent=1)
    for pmsg in problems:
        log("PROBLEM: " + pmsg[:1200])
    log("%s %s: %d/%d obligations discharged, %d paths, %d SMT queries, %.0fs wall, exit %d" % (
        prop, tier, n_conf, n_shards, evidence["coverage"]["evaluations"], evidence["coverage"]["smt_queries"], wall, exit_code))
    shutil.rmtree(workdir, ignore_errors=True)
    return exit_code


def cmd_replay(path):
    subprocess.run([os.path.join(HERE, "setup.sh")], check=True, cwd=HERE, stdout=subprocess.DEVNULL)
    rc, info = plain_replay(path)
    with open(path) as f:
        rp = json.load(f)
    print(json.dumps(info, indent=1))
    if rc == 0:
        print("VIOLATION property=%s replay=%s" % (rp.get("property"), path))
        return 1
    print("not reproduced on this tree")
    return 0


def main():
    ap = argparse.ArgumentParser()
    sub = ap.add_subparsers(dest="cmd")
    c = sub.add_parser("check")
    c.add_argument("prop")
    c.add_argument("--tier", default=os.environ.get("VERIF_TIER", "quick"), choices=["quick", "thorough"])
    c.add_argument("--only", action="append")
    c.add_argument("--match", help="JSON object: run only shards whose parameters contain it (development aid; evidence then covers a subset)")
    r = sub.add_parser("replay")
    r.add_argument("path")
    sub.add_parser("selftest")
    a = ap.parse_args()
    if a.cmd == "check":
        sys.exit(cmd_check(a.prop, a.tier, a.only, match=json.loads(a.match) if a.match else None))
    if a.cmd == "replay":
        sys.exit(cmd_replay(a.path))
    if a.cmd == "selftest":
        subprocess.run([os.path.join(HERE, "setup.sh")], check=True, cwd=HERE)
        sys.exit(subprocess.run([PY, "-m", "vf.selftest"], env=child_env(), cwd=HERE).returncode)
    ap.print_help()
    sys.exit(3)


if __name__ == "__main__":
    main()
