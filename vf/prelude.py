"""Determinism prelude (DESIGN 2.3) executed at the import of every harness module.

VF_PLAIN=1 selects the plain interpreter used for concrete replay: no CrossHair, no
environment models, real hashes.  Otherwise E6 (constant hash) and vf.envmodels are
installed.  Things that are part of the *harness* (clock, scripted sockets, ...) are
set up by the harness modules themselves in both modes."""

import os

PLAIN = os.environ.get("VF_PLAIN") == "1"

import dns.name  # noqa: E402

REAL_NAME_HASH = dns.name.Name.__hash__


def _zero_hash(self):
    return 0


if not PLAIN:
    dns.name.Name.__hash__ = _zero_hash

import dns.rdata  # noqa: E402

REAL_RDATA_HASH = dns.rdata.Rdata.__hash__
if not PLAIN:
    dns.rdata.Rdata.__hash__ = _zero_hash

import dns.entropy  # noqa: E402
import dns.rdataclass  # noqa: E402
import dns.rdatatype  # noqa: E402

dns.rdata.load_all_types()
if not PLAIN:
    for _cls in list(dns.rdata._rdata_classes.values()) + [dns.rdata.GenericRdata]:
        try:
            _cls.__hash__ = _zero_hash
        except Exception:  # pragma: no cover
            pass

import dns.exception  # noqa: E402,F401
import dns.flags  # noqa: E402
import dns.message  # noqa: E402,F401
import dns.rdtypes.dnskeybase  # noqa: E402
import dns.update  # noqa: E402,F401

# E13: the text of a keyword-style DNSException (LifetimeTimeout(timeout=..., errors=...), NXDOMAIN(qnames=...), ...) is
# rendered at construction time by str.format, which is C code: a symbolic duration would be realized, one concrete
# value per path.  No property is about message texts; under the tracer the un-interpolated format string stands in.
if not PLAIN:
    def _plain_str(self):
        if self.kwargs and self.fmt:
            return self.fmt
        return Exception.__str__(self)

    dns.exception.DNSException.__str__ = _plain_str

# E8: no OS entropy under the tracer; harnesses always pass explicit ids anyway.
dns.entropy.random_16 = lambda: 0x1234
dns.entropy.between = lambda first, last: first

# IntFlag pseudo-members are cached on first use: populate now so that concrete paths
# do not differ between CrossHair's replays of one path.
for _i in range(0x10000):
    dns.flags.Flag(_i)
    dns.flags.EDNSFlag(_i)
    dns.rdtypes.dnskeybase.Flag(_i)

_RDATA_CLASSES_SNAPSHOT = dict(dns.rdata._rdata_classes)


def reset_path_state():
    """Undo per-path global mutations of dnspython (called at the start of a path)."""
    if len(dns.rdata._rdata_classes) != len(_RDATA_CLASSES_SNAPSHOT):
        dns.rdata._rdata_classes.clear()
        dns.rdata._rdata_classes.update(_RDATA_CLASSES_SNAPSHOT)


if not PLAIN:
    import vf.envmodels  # noqa: E402,F401
