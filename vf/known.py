"""known_findings.json: committed, read-only at run time."""

import json
import os

HERE = os.path.dirname(os.path.dirname(os.path.abspath(__file__)))
PATH = os.path.join(HERE, "known_findings.json")


def load():
    if not os.path.exists(PATH):
        return []
    with open(PATH) as f:
        return json.load(f).get("findings", [])


def open_for(prop=None, module=None, hid=None):
    out = []
    for e in load():
        if e.get("status") != "open":
            continue
        if prop is not None and e.get("property") != prop:
            continue
        if module is not None and e.get("module") != module:
            continue
        if hid is not None and e.get("harness") != hid:
            continue
        out.append(e)
    return out
