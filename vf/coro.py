"""Coroutine models regenerated from the current source (DESIGN 2.6).

For every (class, method) in TARGETS the method's source is fetched with inspect,
rewritten by a mechanical AST pass into a generator and installed on the class as
<name>_gen.  The real objects, data structures and every other method are untouched.

  fine mode    a `yield` after every statement; `with <lock>:` becomes a blocking acquire
               loop + try/finally release; `event.wait()` becomes a wait loop; calls between
               rewritten methods become `yield from`.
  coarse mode  as fine, but a yield only before each lock acquisition and in wait loops
               (critical sections are atomic).

Locks / events are the cooperative shims below (E10); the scheduler that drives the
generators lives in the harness and takes its choices from symbolic integers."""

import ast
import inspect
import textwrap


class Lock:
    def __init__(self):
        self.held = False

    def __enter__(self):
        assert not self.held, "untransformed lock acquisition while held"
        self.held = True
        return self

    def __exit__(self, *a):
        self.held = False
        return False

    def acquire(self, *a, **k):
        assert not self.held
        self.held = True
        return True

    def release(self):
        self.held = False

    def locked(self):
        return self.held


class Event:
    def __init__(self):
        self.flag = False

    def set(self):
        self.flag = True

    def clear(self):
        self.flag = False

    def is_set(self):
        return self.flag

    def wait(self, timeout=None):
        raise AssertionError("untransformed Event.wait")


class ThreadingShim:
    Lock = Lock
    Event = Event
    RLock = Lock


class _Rewrite(ast.NodeTransformer):
    def __init__(self, names, lock_attrs, fine, plain_receivers=()):
        self.plain_receivers = set(plain_receivers)
        self.names = names
        self.lock_attrs = lock_attrs
        self.fine = fine
        self.sites = 0

    def _yield(self, tag):
        self.sites += 1
        return ast.Expr(ast.Yield(ast.Constant(tag)))

    def _block(self, stmts):
        out = []
        for s in stmts:
            r = self.visit(s)
            out.extend(r if isinstance(r, list) else [r])
            if self.fine and not isinstance(s, (ast.Return, ast.Break, ast.Continue, ast.Raise)):
                out.append(self._yield("stmt"))
        return out

    def visit_FunctionDef(self, node):
        node.body = self._block(node.body)
        node.decorator_list = []
        node.returns = None
        return node

    def visit_If(self, node):
        node.test = self.visit(node.test)
        node.body = self._block(node.body)
        node.orelse = self._block(node.orelse) if node.orelse else []
        return node

    def visit_While(self, node):
        node.test = self.visit(node.test)
        node.body = self._block(node.body)
        return node

    def visit_For(self, node):
        node.body = self._block(node.body)
        return node

    def visit_Try(self, node):
        node.body = self._block(node.body)
        for h in node.handlers:
            h.body = self._block(h.body)
        node.orelse = self._block(node.orelse) if node.orelse else []
        node.finalbody = [self.visit(x) for x in node.finalbody]
        return node

    def visit_Call(self, node):
        self.generic_visit(node)
        f = node.func
        if isinstance(f, ast.Attribute) and f.attr in self.names:
            recv = f.value
            # `self.data.get(...)`: a plain container that happens to have a method of the same name
            if isinstance(recv, ast.Attribute) and recv.attr in self.plain_receivers:
                return node
            f.attr = f.attr + "_gen"
            return ast.YieldFrom(node)
        return node

    def visit_Expr(self, node):
        v = node.value
        if isinstance(v, ast.Call) and isinstance(v.func, ast.Attribute) and v.func.attr == "wait":
            ev = v.func.value
            self.sites += 1
            return ast.While(
                test=ast.UnaryOp(ast.Not(), ast.Call(ast.Attribute(ev, "is_set", ast.Load()), [], [])),
                body=[ast.Expr(ast.Yield(ast.Tuple([ast.Constant("blocked"), ev], ast.Load())))],
                orelse=[],
            )
        node.value = self.visit(v)
        return node

    def visit_With(self, node):
        it = node.items[0].context_expr
        body = self._block(node.body)
        if isinstance(it, ast.Attribute) and it.attr in self.lock_attrs:
            self.sites += 1
            acq = ast.parse("yield 'lock'\nwhile L.held:\n    yield ('blocked', L)\nL.held = True").body
            rel = ast.parse("L.held = False").body

            class R(ast.NodeTransformer):
                def visit_Name(s, n):
                    return it if n.id == "L" else n

            acq = [R().visit(a) for a in acq]
            rel = [R().visit(a) for a in rel]
            return acq + [ast.Try(body=body, handlers=[], orelse=[], finalbody=rel)]
        node.body = body
        return node


SOURCES = {}


def install(targets, lock_attrs, fine, plain_receivers=()):
    """targets: [(cls, method_name)].  Returns {(cls_name, method): generated source}."""
    names = {n for _, n in targets}
    out = {}
    for cls, name in targets:
        fn = getattr(cls, name)
        fn = getattr(fn, "__func__", fn)
        src = textwrap.dedent(inspect.getsource(fn))
        f = ast.parse(src).body[0]
        rw = _Rewrite(names, lock_attrs, fine, plain_receivers)
        f = rw.visit(f)
        f.name = name + "_gen"
        # a generator needs at least one yield
        if rw.sites == 0 and not any(isinstance(n, (ast.Yield, ast.YieldFrom)) for n in ast.walk(f)):
            f.body.append(ast.Expr(ast.Yield(ast.Constant("end"))))
        mod = ast.Module([f], [])
        ast.fix_missing_locations(mod)
        ns = dict(inspect.getmodule(cls).__dict__)
        ns["__class__"] = cls
        code = compile(mod, "<coro:%s.%s>" % (cls.__name__, name), "exec")
        exec(code, ns)
        setattr(cls, name + "_gen", ns[name + "_gen"])
        out[(cls.__name__, name)] = ast.unparse(f)
    SOURCES.update(out)
    return out


def shared_state_under_lock(cls, methods, lock_attr, shared):
    """Static side condition for the coarse reduction: inside `methods` of `cls`, every
    access to an attribute in `shared` lies lexically inside `with self.<lock_attr>` or
    inside a method whose name ends in `_unlocked`.  Returns the list of violations."""
    bad = []
    for name in methods:
        fn = getattr(cls, name)
        fn = getattr(fn, "__func__", fn)
        tree = ast.parse(textwrap.dedent(inspect.getsource(fn))).body[0]
        if name.endswith("_unlocked"):
            continue

        def walk(node, locked):
            if isinstance(node, ast.With):
                it = node.items[0].context_expr
                here = locked or (isinstance(it, ast.Attribute) and it.attr == lock_attr)
                for ch in node.body:
                    walk(ch, here)
                return
            if isinstance(node, ast.Attribute) and node.attr in shared and not locked:
                bad.append("%s.%s: %s at line %d" % (cls.__name__, name, node.attr, node.lineno))
            for ch in ast.iter_child_nodes(node):
                walk(ch, locked)

        walk(tree, False)
    return bad
