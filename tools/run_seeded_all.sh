#!/bin/sh
# Apply every seeded change in turn and run the quick check of its property (development aid).
cd /verif
for id in "$@"; do
  prop=$(echo $id | cut -d- -f1)
  TIER=quick timeout 2400 tools/try_seeded.sh $id $prop > .work/seeded-run-$id.txt 2>&1
  echo "$id exit=$? $(grep -c '^VIOLATION' .work/seeded-$id.log 2>/dev/null) violations" >> .work/seeded-summary.txt
done
