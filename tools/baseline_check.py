#!/usr/bin/env python3
"""Run the repository's pinned test suite and compare with /root/.vp/BASELINE.json stable_pass."""
import json, os, subprocess, sys, tempfile
import xml.etree.ElementTree as ET

base = json.load(open("/root/.vp/BASELINE.json"))
out = tempfile.mktemp(suffix=".xml", dir="/var/tmp")
cmd = "cd /repo && /venv/bin/python -m pytest -q -p no:cacheprovider --timeout=900 --continue-on-collection-errors -n 8 --junitxml=%s" % out
env = dict(os.environ)
for k in list(env):
    if k.endswith("_VERIF"):
        env.pop(k)
p = subprocess.run(cmd, shell=True, env=env, capture_output=True, text=True)
passed = set()
for tc in ET.parse(out).getroot().iter("testcase"):
    if not list(tc):
        passed.add("%s::%s" % (tc.get("classname"), tc.get("name")))
    elif all(ch.tag in ("system-out", "system-err", "properties") for ch in tc):
        passed.add("%s::%s" % (tc.get("classname"), tc.get("name")))
os.unlink(out)
want = set(base["stable_pass"])
missing = sorted(want - passed)
print("stable_pass=%d passed_now=%d missing=%d" % (len(want), len(passed), len(missing)))
for m in missing[:40]:
    print("MISSING", m)
sys.exit(1 if missing else 0)
