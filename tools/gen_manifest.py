#!/usr/bin/env python3
"""Regenerate MANIFEST.json from the table below (claimed properties = harness modules that exist)."""
import json, os
HERE = os.path.dirname(os.path.dirname(os.path.abspath(__file__)))
props = [json.loads(l) for l in open(os.path.join(HERE, "properties.jsonl"))]
NOTES = json.load(open(os.path.join(HERE, "tools", "manifest_notes.json")))
checks, na = [], []
for p in props:
    pid = p["id"]
    note = NOTES.get(pid, {})
    if os.path.exists(os.path.join(HERE, "harness", pid + ".py")) and note.get("claimed", True):
        checks.append({
            "property_id": pid,
            "quick_cmd": "./run check %s --tier quick" % pid,
            "thorough_cmd": "./run check %s --tier thorough" % pid,
            "evidence_file": "evidence/%s.json" % pid,
            "replay_cmd_template": "./run replay {path}",
            "engine": "crosshair+z3",
            "level_claimed": {
                "category": "other",
                "text": "Bounded symbolic execution of the real dnspython code with CrossHair + z3: inside the stated bounds every feasible path is executed on symbolic inputs and the property assertion is proved by the solver on each; counterexamples are replayed concretely without stubs before being reported. " + note.get("text", ""),
                "design_ref": "DESIGN.md section 3, " + pid,
            },
            "level_note": note.get("note", "Trusted: CrossHair's models of Python built-ins, z3, and the environment models listed in the evidence file's assumptions; bounds per harness in the evidence file."),
            "technique": note.get("technique", "solver-based bounded symbolic execution of the real code (CrossHair/z3), path-exhaustive within bounds"),
        })
    else:
        na.append({"property_id": pid, "reason": note.get("na_reason", "check not built yet in this session (planned in DESIGN.md section 3)")})
m = {
    "version": 1,
    "setup_cmd": "./setup.sh",
    "hooks": {
        "guard": "DNSPYTHON_VERIF",
        "enable": "no source hooks are needed: every substitution is a rebind made inside the check's own worker processes (see DESIGN.md section 7)",
        "baseline_off_cmd": "cd /repo && /venv/bin/python -m pytest -ra -q -p no:cacheprovider --timeout=900 --continue-on-collection-errors",
        "source_commits": [],
        "add_only": True,
    },
    "engines": [{"name": "crosshair+z3", "path": "vf/engine.py", "serves_properties": [c["property_id"] for c in checks],
                 "kind_free_text": "symbolic execution of Python (CrossHair 0.0.110) with z3 4.x/5.x as the deciding solver; one path tree per (harness, shard)"}],
    "checks": checks,
    "not_applicable": na,
    "notes": "Exit codes of ./run check: 0 held (incl. only KNOWN-FINDING lines), 1 VIOLATION (reproduced concretely), 2 inconclusive (a shard did not exhaust its path tree), 3 harness error. known_findings.json lists recorded defects and fixed: entries.",
}
json.dump(m, open(os.path.join(HERE, "MANIFEST.json"), "w"), indent=1)
print("claimed:", [c["property_id"] for c in checks])
