#!/usr/bin/env python3
"""tools/confirm_seeded.py <seeded-id> <property> "<needs>": confirm a seeded change in a scratch worktree
(demo passes without / fails with the patch; pinned test suite still passes with it) and write meta.json."""
import json, os, subprocess, sys, tempfile
import xml.etree.ElementTree as ET
sid, prop, needs = sys.argv[1], sys.argv[2], sys.argv[3]
d = "/verif/seeded/" + sid
wt = "/tmp/wt/confirm-" + sid
subprocess.run(["git", "-C", "/repo", "worktree", "remove", "--force", wt], capture_output=True)
subprocess.run(["git", "-C", "/repo", "worktree", "add", "-q", "--detach", wt, "HEAD"], check=True)
env = dict(os.environ, PYTHONPATH=wt)
def demo():
    p = subprocess.run(["/venv/bin/python", d + "/demo.py"], env=env, cwd=wt, capture_output=True, text=True, timeout=900)
    return p.returncode, (p.stdout + p.stderr)[-600:]
res = {}
try:
    rc0, out0 = demo()
    ap = subprocess.run(["git", "-C", wt, "apply", d + "/patch.diff"], capture_output=True, text=True)
    rc1, out1 = demo()
    xml = tempfile.mktemp(suffix=".xml", dir="/var/tmp")
    subprocess.run("cd %s && /venv/bin/python -m pytest -q -p no:cacheprovider --timeout=900 --continue-on-collection-errors -n 6 --junitxml=%s tests" % (wt, xml),
                   shell=True, env=env, capture_output=True, text=True)
    passed = set()
    for tc in ET.parse(xml).getroot().iter("testcase"):
        if all(ch.tag in ("system-out", "system-err", "properties") for ch in tc):
            passed.add("%s::%s" % (tc.get("classname"), tc.get("name")))
    os.unlink(xml)
    want = set(json.load(open("/root/.vp/BASELINE.json"))["stable_pass"])
    missing = sorted(want - passed)
    res = {"patch_applies": ap.returncode == 0, "demo_exit_without_patch": rc0, "demo_exit_with_patch": rc1,
           "demo_output_with_patch_tail": out1, "pinned_tests_missing_with_patch": missing[:10],
           "confirmed": ap.returncode == 0 and rc0 == 0 and rc1 != 0 and not missing}
finally:
    subprocess.run(["git", "-C", "/repo", "worktree", "remove", "--force", wt], capture_output=True)
meta = {"id": sid, "breaks_property": prop, "needs_to_manifest": needs,
        "base_commit": subprocess.run(["git", "-C", "/repo", "rev-parse", "--short", "HEAD"], capture_output=True, text=True).stdout.strip(),
        "confirmation": res,
        "what_i_ran": ["demo.py on a clean scratch worktree (exit 0 expected)", "git apply patch.diff; demo.py (non-zero expected)",
                       "pinned pytest suite in the patched worktree compared with BASELINE.json stable_pass"],
        "detected_by": []}
if os.path.exists(d + "/meta.json"):
    old = json.load(open(d + "/meta.json"))
    meta["detected_by"] = old.get("detected_by", [])
json.dump(meta, open(d + "/meta.json", "w"), indent=1)
print(sid, "confirmed" if res.get("confirmed") else "NOT CONFIRMED", json.dumps(res)[:300])
