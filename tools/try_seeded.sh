#!/bin/sh
# tools/try_seeded.sh <seeded-id> <property> [run args...]: apply a seeded change to a scratch worktree of /repo
# (under /tmp, removed afterwards), run the check against it via VF_REPO, report.  /repo itself is not touched.
id="$1"; prop="$2"; shift 2
cd /verif
wt="/tmp/vfseed-$id-$$"
git -C /repo worktree remove --force "$wt" >/dev/null 2>&1
git -C /repo worktree add -q --detach "$wt" HEAD || exit 9
git -C "$wt" apply "/verif/seeded/$id/patch.diff" || { git -C /repo worktree remove --force "$wt"; exit 9; }
VF_NO_RETRY=1 VF_REPO="$wt" ./run check "$prop" --tier "${TIER:-quick}" "$@" > "/verif/.work/seeded-$id.log" 2>&1
rc=$?
git -C /repo worktree remove --force "$wt"
echo "seeded $id on $prop: exit $rc"
grep -E "^VIOLATION|REFUTED|PROBLEM" "/verif/.work/seeded-$id.log" | head -8
exit $rc
