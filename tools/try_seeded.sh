#!/bin/sh
# tools/try_seeded.sh <seeded-id> <property> [run args...]: apply a seeded change to /repo, run the check, revert.
id="$1"; prop="$2"; shift 2
cd /verif
if ! git -C /repo diff --quiet; then echo "/repo has uncommitted changes"; exit 9; fi
git -C /repo apply "/verif/seeded/$id/patch.diff" || exit 9
./run check "$prop" --tier "${TIER:-quick}" "$@" > "/verif/.work/seeded-$id.log" 2>&1
rc=$?
git -C /repo checkout -- .
echo "seeded $id on $prop: exit $rc"
grep -E "^VIOLATION|REFUTED|PROBLEM" "/verif/.work/seeded-$id.log" | head -8
exit $rc
