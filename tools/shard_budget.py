#!/usr/bin/env python3
"""Development aid: number of shards and worst-case budget per property and tier (PYTHONPATH=/repo:/verif, overlay venv)."""
import importlib, sys
import vf.prelude  # noqa
for i in range(1, 21):
    p = "C%02d" % i
    m = importlib.import_module("harness." + p)
    row = []
    for tier in ("quick", "thorough"):
        n = 0; tot = 0.0
        for h in m.HARNESSES:
            sh = h.shards(tier)
            n += len(sh); tot += sum(float(s.get("_timeout", 60)) for s in sh)
        row.append("%s: %4d shards, worst case %6.0f cpu-s (%4.0f min on 16 cores)" % (tier, n, tot, tot / 16 / 60))
    print(p, " | ".join(row))
