#!/usr/bin/env python3
"""Collect the results of tools/try_seeded.sh runs (.work/seeded-<id>.log) into seeded/<id>/meta.json and print the DESIGN table."""
import glob, json, os, re
rows = []
for d in sorted(glob.glob("/verif/seeded/*/")):
    sid = os.path.basename(d.rstrip("/"))
    meta = json.load(open(d + "meta.json")) if os.path.exists(d + "meta.json") else {"id": sid}
    log = "/verif/.work/seeded-%s.log" % sid
    det = []
    rc = None
    if os.path.exists(log):
        txt = open(log).read()
        det = sorted(set(re.findall(r"^\s+(H\w+)\s+REFUTED", txt, re.M)))
        m = re.search(r"exit (\d+)\s*$", txt.strip().splitlines()[-1]) if txt.strip() else None
        rc = int(m.group(1)) if m else None
        nviol = len(re.findall(r"^VIOLATION", txt, re.M))
        meta["check_run"] = {"command": "tools/try_seeded.sh %s %s" % (sid, meta.get("breaks_property", sid.split("-")[0])), "exit": rc,
                             "violations_reported": nviol, "harnesses_refuted": det}
        meta["detected_by"] = det if nviol else []
    json.dump(meta, open(d + "meta.json", "w"), indent=1)
    rows.append((sid, meta.get("breaks_property"), meta.get("needs_to_manifest", ""), ", ".join(meta.get("detected_by", [])) or "NOT DETECTED", rc))
print("| seeded change | property | needs, in order to manifest | caught by (quick tier) |")
print("|---|---|---|---|")
for r in rows:
    print("| %s | %s | %s | %s |" % (r[0], r[1], r[2], r[3]))
