#!/usr/bin/env python3
import json, sys
pid = sys.argv[1]; variant = sys.argv[2] if len(sys.argv) > 2 else ""
for l in open("/verif/properties.jsonl"):
    d = json.loads(l)
    if d["id"] == pid:
        break
wt = "/tmp/wt/%s%s" % (pid, variant)
out = "/tmp/wt/out-%s%s" % (pid, variant)
print(f"""You are helping to evaluate a verification framework for the Python library dnspython (rthalley/dnspython). Your job is to act as a *bug seeder*: produce ONE realistic, subtle change to the library's source that BREAKS the semantic property below while the code still imports and the library's existing test suite still passes.

Work ONLY inside the git worktree {wt} (a checkout of the library; the package is in {wt}/dns, tests in {wt}/tests). Do NOT read or touch /verif or /repo (other than this worktree) -- your work must be independent. Use the interpreter /venv/bin/python; run anything that imports the library with PYTHONPATH={wt} so that YOUR modified copy is imported (check `python -c "import dns; print(dns.__file__)"` prints a path inside {wt}). There is no network.

PROPERTY {d['id']}: {d['title']}
Statement: {d['statement']}
Quantified over: {d['quantifier']['text']}
Why unit tests cannot settle it: {d['why_tests_cant']}
Code anchors (mechanisms the property depends on): {json.dumps(d['anchors']['mechanism'])}

Requirements for the change:
1. It must be a plausible maintenance mistake (an off-by-one, a dropped condition, a wrong comparison, a reordered pair of statements, a missing lock/unlock or wake-up, a wrong constant, a case-handling slip, ...) in the dns/ package -- not in the tests -- and small (typically 1-10 lines).
2. It must need something SPECIFIC to manifest: an unusual input, a particular interleaving, a crash/fault at a particular point, a multi-step sequence of operations, or two cooperating sites that each look fine alone. A change that ordinary use would expose at once is not wanted.
3. The whole existing test suite must still pass with the change: run `cd {wt} && PYTHONPATH={wt} /venv/bin/python -m pytest -q -p no:cacheprovider --timeout=900 -n 8 tests` before and after; the set of failing tests must not grow (a handful of IDNA-related tests fail already on the unmodified tree; ignore those). If your change makes a test fail, pick a different change.
4. Write a demonstration {out}/demo.py: a small stand-alone program (run as `PYTHONPATH=<tree> /venv/bin/python demo.py`) that exits 0 with the ORIGINAL tree and exits non-zero (assertion failure showing the property violation) with the MODIFIED tree. It must demonstrate a violation of the property as stated, not merely a behavioural difference.
5. Save the change as {out}/patch.diff (output of `git -C {wt} diff`), applicable with `git apply` to a clean checkout, and write {out}/notes.md: which part of the property is broken, what specific input/sequence/interleaving is needed to see it, and the exact commands you ran (tests before/after, demo before/after) with their results.

Verify everything yourself: apply/revert with `git -C {wt} stash` or `git -C {wt} checkout -- .` to run the demo against the original, then re-apply the patch and leave the worktree WITH the patch applied. Finish by replying with a short summary: the patch (inline), what it breaks, what is needed to trigger it, and the test/demo results.""")
